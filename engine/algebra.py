"""Obligation builders for the algebraic case kinds (real reading)."""
from fractions import Fraction
from . import ir, jets
from .ir import ZERO, ONE, const


def leaves_terms(terms, leaves):
    return [None if v is None else terms[v] for v in leaves]


def re_of(terms, leaves):
    return terms[leaves[0]]


def domain(fname, x, extra=None):
    """IR constraints describing the function's open domain (property: real part in dom(g))"""
    c = []
    if fname in ('recip', 'inv', 'cbrt', 'abs', 'signum', 'sph_j0', 'sph_j1', 'sph_j2'):
        c.append(('ne', x, ZERO))
    if fname in ('sqrt', 'ln', 'log2', 'log10', 'log', 'powf'):
        c.append(('gt', x, ZERO))
    if fname == 'ln_1p':
        c.append(('gt', x, const(-1)))
    if fname in ('asin', 'acos', 'atanh'):
        c += [('gt', x, const(-1)), ('lt', x, ONE)]
    if fname == 'acosh':
        c.append(('gt', x, ONE))
    if fname == 'tan':
        c.append(('ne', ir.fn('cos', x), ZERO))
    if fname == 'log':
        b = extra['b']
        c += [('gt', b, ZERO), ('ne', b, ONE), ('ne', ir.fn('ln', b), ZERO)]
    return c


def primary(case, result, terms):
    """(obligations, assumptions, functions) for the kind's primary meaning:
    implementation leaf == Faa di Bruno composition of the true derivatives."""
    kind = case['kind']
    parts = kind.split(':')
    if parts[0] == 'az':
        parts = parts[1:]
    levels = case['levels']
    ins = {n: leaves_terms(terms, l) for (n, l) in result['inputs']}
    outs = {n: l for (n, l) in result['outputs']}
    scal = {n: terms[v] for (n, v) in result['scalars']}
    obs, assume = [], []

    def emit(outname, oracle):
        impl = leaves_terms(terms, outs[outname])
        assert len(impl) == len(oracle), (len(impl), len(oracle))
        for i, (a, b) in enumerate(zip(impl, oracle)):
            obs.append((f'{outname}#{i}', a, b))

    k0 = parts[0]
    if k0 == 'un':
        f = parts[1]
        x = ins['x']
        xr = x[0]
        assume += domain(f, xr)
        if f == 'abs':
            d = jets.abs_deriv(xr)
        elif f == 'signum':
            d = jets.signum_deriv(xr)
        else:
            d = jets.func_deriv(f, [xr])
        emit('y', jets.compose(levels, [x], d))
    elif k0 == 'sincos':
        x = ins['x']
        emit('sin', jets.compose(levels, [x], jets.func_deriv('sin', [x[0]])))
        emit('cos', jets.compose(levels, [x], jets.func_deriv('cos', [x[0]])))
    elif k0 in ('bin', 'assign'):
        op = parts[1]
        a, b = ins['a'], ins['b']
        if op == 'div':
            assume.append(('ne', b[0], ZERO))
        emit('y', jets.compose(levels, [a, b], jets.func_deriv(op, [a[0], b[0]])))
    elif k0 == 'atan2':
        a, b = ins['a'], ins['b']
        # property: (x, y) != (0, 0); each fork path is checked on its own condition
        assume.append(('or', ('ne', a[0], ZERO), ('ne', b[0], ZERO)))
        emit('y', jets.compose(levels, [a, b], jets.func_deriv('atan2', [a[0], b[0]])))
    elif k0 == 'powd':
        a, b = ins['a'], ins['b']
        assume.append(('gt', a[0], ZERO))
        emit('y', jets.compose(levels, [a, b], jets.func_deriv('powd', [a[0], b[0]])))
    elif k0 == 'mul_add':
        a, b, c = ins['a'], ins['b'], ins['c']
        import sympy as sp
        x, y, z = sp.symbols('x y z', real=True)
        env = {x: a[0], y: b[0], z: c[0]}
        expr = x * y + z
        cache = {}

        def d(alpha):
            if alpha not in cache:
                cache[alpha] = jets.sympy_to_ir(jets.sym_deriv(expr, (x, y, z), alpha), env)
            return cache[alpha]
        emit('y', jets.compose(levels, [a, b, c], d))
    elif k0 == 'abs_sub':
        a, b = ins['a'], ins['b']
        # positive part of the difference: a-b where a.re > b.re, 0 otherwise (a.re != b.re)
        assume.append(('ne', a[0], b[0]))
        diff = jets.compose(levels, [a, b], jets.func_deriv('sub', [a[0], b[0]]))
        oracle = [ir.T('ite', ('lt', b[0], a[0]), t, ZERO) for t in diff]
        emit('y', oracle)
    elif k0 == 'powi':
        n = int(parts[1])
        x = ins['x']
        if n < 0:
            assume.append(('ne', x[0], ZERO))
        else:
            # property: every non-zero base for integer exponents (0 is C10's subject)
            assume.append(('ne', x[0], ZERO))
        emit('y', jets.compose(levels, [x], jets.powi_deriv(n, x[0])))
    elif k0 in ('powf', 'powfc'):
        x = ins['x']
        if k0 == 'powf':
            n = scal['n']
        else:
            import struct
            bits = struct.unpack('<Q', struct.pack('<d', float(parts[1])))[0]
            n = ir.T('const', ir.literal_fraction(bits))
        assume.append(('gt', x[0], ZERO))
        emit('y', jets.compose(levels, [x], jets.func_deriv('powf', [x[0]], {jets._n: n})))
    elif k0 == 'log':
        x = ins['x']
        b = scal['b']
        assume += domain('log', x[0], {'b': b})
        emit('y', jets.compose(levels, [x], jets.func_deriv('log', [x[0]], {jets._b: b})))
    else:
        raise ValueError(kind)
    return obs, assume
