"""Core of engine E1: building/running symtrace, deciding obligations with z3, replaying
counterexamples against the native f64/f32 build, collecting evidence."""
import json
import os
import subprocess
import sys
import time
import hashlib
from fractions import Fraction

import z3
import mpmath

from . import ir

VERIF = os.path.dirname(os.path.dirname(os.path.abspath(__file__)))
REPO = os.environ.get('VERIF_REPO', '/repo')
SYMTRACE_DIR = os.path.join(VERIF, 'symtrace')
WORK = os.path.join(VERIF, 'work')
BIN = os.path.join(SYMTRACE_DIR, 'target', 'release', 'symtrace')

_built = False


def build_symtrace():
    """(re)build the tracer against /repo's current working tree"""
    global _built
    if _built:
        return
    env = dict(os.environ, CARGO_NET_OFFLINE='true', SYMTRACE_REPO=REPO)
    env.pop('RUSTUP_TOOLCHAIN', None)
    lock = os.path.join(SYMTRACE_DIR, 'Cargo.lock')
    t0 = time.time()
    p = subprocess.run(['cargo', 'build', '--release', '--offline'], cwd=SYMTRACE_DIR, env=env,
                       stdout=subprocess.PIPE, stderr=subprocess.STDOUT, text=True)
    if p.returncode != 0:
        sys.stdout.write(p.stdout[-6000:])
        raise SystemExit(2)
    _built = True
    return time.time() - t0


def trace(specs, tag, seed=0, max_paths=512, random_paths=None):
    """specs: list of (shape, kind, pres) -> parsed JSON cases"""
    build_symtrace()
    os.makedirs(WORK, exist_ok=True)
    out = os.path.join(WORK, f'trace_{tag}_{os.getpid()}.json')
    inp = ''.join(f'{s}|{k}|{p}\n' for (s, k, p) in specs)
    env = dict(os.environ, VERIF_SEED=str(seed), SYMTRACE_MAX_PATHS=str(max_paths))
    env.pop('SYMTRACE_RANDOM_PATHS', None)
    if random_paths:
        env['SYMTRACE_RANDOM_PATHS'] = str(random_paths)
    p = subprocess.run([BIN, 'trace', out], input=inp, text=True, env=env,
                       stdout=subprocess.PIPE, stderr=subprocess.PIPE)
    if p.returncode != 0:
        sys.stdout.write(p.stdout[-3000:] + p.stderr[-3000:])
        raise SystemExit(2)
    with open(out) as f:
        doc = json.load(f)
    os.remove(out)
    return doc['cases']


def native_run(shape, kind, pres, assign, flt='f64', release=True):
    build_symtrace()
    a = ';'.join(f'{k}={float(v)!r}' for k, v in assign.items())
    line = f'{shape}|{kind}|{pres}|{a}\n'
    p = subprocess.run([BIN, 'run', flt], input=line, text=True, stdout=subprocess.PIPE, stderr=subprocess.PIPE)
    if p.returncode != 0:
        raise RuntimeError(p.stderr)
    return json.loads(p.stdout)[0]


# ---------------------------------------------------------------------------------------------
class SolverProxy:
    """Assertion stack; every check runs a fresh, non-incremental nlsat solver. (z3's incremental
    core falls back to the nla extension, whose bignum patching loops ignore both the timeout
    and interrupts; nlsat honours them.)"""

    def __init__(self, timeout_ms):
        self.stack = [[]]
        self.timeout_ms = timeout_ms
        self._model = None

    def add(self, *cs):
        self.stack[-1].extend(cs)

    def push(self):
        self.stack.append([])

    def pop(self):
        self.stack.pop()

    def assertions(self):
        return [a for fr in self.stack for a in fr]

    def check(self):
        s = z3.Tactic('qfnra-nlsat').solver()
        s.set('timeout', self.timeout_ms)
        for a in self.assertions():
            s.add(a)
        r = s.check()
        self._model = s.model() if r == z3.sat else None
        return r

    def model(self):
        return self._model

    def to_smt2(self):
        s = z3.Solver()
        for a in self.assertions():
            s.add(a)
        return s.to_smt2()


class Run:
    """one invocation of a property check: statistics, violations, evidence"""

    def __init__(self, prop, tier, seed):
        self.prop, self.tier, self.seed = prop, tier, seed
        self.t0 = time.time()
        self.obligations = 0
        self.discharged = 0
        self.queries = 0
        self.solver_time = 0.0
        self.paths = 0
        self.infeasible_paths = 0
        self.cases = 0
        self.case_keys = set()
        self.validated = 0
        self.vacuity_witnesses = 0
        self.violations = []     # dicts
        self.known = []          # known-finding hits
        self.inconclusive = []
        self.samples = []
        self.functions = set()
        self.instantiations = set()
        self.bounds = {}
        self.notes = []
        self.assumptions = []
        self.kani = []           # kani harness results
        self.timeout_ms = 20000 if tier == 'quick' else 120000

    def sample(self, s):
        if len(self.samples) < 12:
            self.samples.append(s)

    def solver(self, logic=None):
        if logic == 'euf':
            s = z3.Solver()
            s.set('timeout', self.timeout_ms)
            return s
        return SolverProxy(self.timeout_ms)

    def check(self, s, *extra):
        t = time.time()
        try:
            with ir.z3_deadline(self.timeout_ms / 1000.0 + 5):
                r = s.check(*extra)
        except z3.Z3Exception:
            r = z3.unknown
        self.solver_time += time.time() - t
        self.queries += 1
        return r


MERGE_NUM = ['obligations', 'discharged', 'queries', 'solver_time', 'paths', 'infeasible_paths', 'cases',
             'validated', 'vacuity_witnesses']
MERGE_LIST = ['violations', 'inconclusive', 'notes', 'kani', 'known']
MERGE_SET = ['case_keys', 'functions', 'instantiations']


def parallel(run, fn, chunks, jobs=None, chunk_timeout=None):
    """run fn(subrun, chunk) over chunks in forked worker processes (one process per chunk, hard
    wall-clock limit per chunk) and merge the statistics"""
    import multiprocessing as mp
    build_symtrace()
    jobs = jobs or int(os.environ.get('VERIF_JOBS', '14'))
    chunk_timeout = chunk_timeout or (900 if run.tier == 'quick' else 7200)
    ctx = mp.get_context('fork')

    def work(idx, conn):
        # memory guard: a runaway simplification / nlsat query must not take the machine down
        try:
            import resource
            lim = int(os.environ.get('VERIF_WORKER_MEM_GB', '8')) * (1 << 30)
            resource.setrlimit(resource.RLIMIT_AS, (lim, lim))
            z3.set_param('memory_max_size', 6000)
        except Exception:
            pass
        ch = chunks[idx]   # chunks are inherited through fork (they may hold closures)
        sub = Run(run.prop, run.tier, run.seed)
        sub.timeout_ms = run.timeout_ms
        try:
            fn(sub, ch)
        except ir.Inconclusive as e:
            sub.inconclusive.append({'reason': str(e)})
        except Exception as e:  # a crash of the machinery is never a pass
            import traceback
            sub.inconclusive.append({'reason': 'checker exception: ' + repr(e),
                                     'trace': traceback.format_exc()[-1500:]})
        d = {k: getattr(sub, k) for k in MERGE_NUM + MERGE_LIST}
        d.update({k: sorted(getattr(sub, k)) for k in MERGE_SET})
        d['samples'] = sub.samples
        if hasattr(sub, 'notes_euf'):
            d['notes_euf'] = sub.notes_euf
        conn.send(d)
        conn.close()

    def merge(d):
        for k in MERGE_NUM:
            setattr(run, k, getattr(run, k) + d[k])
        for k in MERGE_LIST:
            getattr(run, k).extend(d[k])
        for k in MERGE_SET:
            getattr(run, k).update(d[k])
        for smp in d['samples']:
            run.sample(smp)
        if 'notes_euf' in d:
            cur = getattr(run, 'notes_euf', [0, 0])
            run.notes_euf = [cur[0] + d['notes_euf'][0], cur[1] + d['notes_euf'][1]]

    pending = list(range(len(chunks)))
    running = {}   # idx -> (proc, conn, t0)
    while pending or running:
        while pending and len(running) < jobs:
            idx = pending.pop(0)
            pc, cc = ctx.Pipe(duplex=False)
            p = ctx.Process(target=work, args=(idx, cc))
            p.start()
            cc.close()
            running[idx] = (p, pc, time.time())
        done = []
        for idx, (p, pc, t0) in running.items():
            if pc.poll(0):
                try:
                    merge(pc.recv())
                except EOFError:
                    run.inconclusive.append({'reason': f'worker for chunk {idx} died without a result'})
                p.join(5)
                done.append(idx)
            elif not p.is_alive():
                run.inconclusive.append({'reason': f'worker for chunk {idx} died without a result'})
                done.append(idx)
            elif time.time() - t0 > chunk_timeout:
                p.kill()
                p.join(5)
                run.inconclusive.append({'reason': f'chunk {idx} exceeded the wall-clock limit of {chunk_timeout}s '
                                                   '(solver did not return); its obligations are undecided'})
                done.append(idx)
        for idx in done:
            running.pop(idx)
        if done and os.environ.get('VERIF_PROGRESS'):
            sys.stderr.write(f'[{run.prop}] chunks left={len(pending)} running={len(running)} of {len(chunks)} '
                             f'inconclusive={len(run.inconclusive)} violations={len(run.violations)}\n')
        if not done:
            time.sleep(0.05)


class _Caller:
    """picklable-by-fork wrapper: the closure lives in the parent and is inherited by fork"""
    _fns = {}

    def __init__(self, f):
        self.key = id(f)
        _Caller._fns[self.key] = f

    def __call__(self, x):
        return _Caller._fns[self.key](x)


def enc_constraint(enc, c):
    rel = c[0]
    if rel == 'and':
        return z3.And(*[enc_constraint(enc, x) for x in c[1:]])
    if rel == 'or':
        return z3.Or(*[enc_constraint(enc, x) for x in c[1:]])
    a, b = enc.enc(c[1]), enc.enc(c[2])
    if rel == 'lt':
        return ir.q_lt(a, b)
    if rel == 'le':
        return ir.q_lt(a, b, False)
    if rel == 'gt':
        return ir.q_lt(b, a)
    if rel == 'ge':
        return ir.q_lt(b, a, False)
    if rel == 'eq':
        return ir.q_eq(a, b)
    if rel == 'ne':
        return z3.Not(ir.q_eq(a, b))
    raise ValueError(rel)


def model_assignment(model, names):
    """model -> {var: Fraction} (algebraic values approximated to 30 digits)"""
    out = {}
    for n in names:
        v = model.eval(z3.Real(n), model_completion=True)
        if z3.is_rational_value(v):
            out[n] = Fraction(v.numerator_as_long(), v.denominator_as_long())
        elif z3.is_algebraic_value(v):
            a = v.approx(30)
            out[n] = Fraction(a.numerator_as_long(), a.denominator_as_long())
        else:
            out[n] = Fraction(0)
    return out


def leaf_term(terms, v):
    return None if v is None else terms[v]


class PathCtx:
    """solver context for one path of one traced case in the real reading"""

    def __init__(self, run, case, path, terms, assume=()):
        self.run, self.case, self.path, self.terms = run, case, path, terms
        self.enc = ir.RealEnc()
        self.enc.link_pow_exp = case['kind'].startswith(('prog;', 'powd', 'az:powd'))
        self.assume = list(assume)
        self.cond_z3 = [self.enc.cond(c[0], terms[c[1]], terms[c[2]], c[3]) for c in path['conds']]
        self.assume_z3 = [enc_constraint(self.enc, c) for c in self.assume]
        self.feasible = None

    def base_solver(self):
        s = self.run.solver()
        self.enc.ln_const_axioms()
        for a in self.enc.axioms:
            s.add(a)
        for c in self.cond_z3 + self.assume_z3:
            s.add(c)
        return s

    def var_names(self):
        return [n[1] for n in self.case['dag'] if n[0] == 'var']


def spec_of(case):
    return (case['shape'], case['kind'], int(case['pres']))


def case_id(case):
    return f"{case['kind']}@{case['shape']}/p{int(case['pres'])}"


def eval_constraint(c, env, cache):
    rel = c[0]
    if rel == 'and':
        return all(eval_constraint(x, env, cache) for x in c[1:])
    if rel == 'or':
        return any(eval_constraint(x, env, cache) for x in c[1:])
    a, b = ir.mp_eval(c[1], env, cache), ir.mp_eval(c[2], env, cache)
    return {'lt': a < b, 'le': a <= b, 'eq': a == b, 'ne': a != b, 'gt': a > b, 'ge': a >= b}[rel]


def eval_cond(c, terms, env, cache):
    rel, a, b, d = c
    x, y = ir.mp_eval(terms[a], env, cache), ir.mp_eval(terms[b], env, cache)
    if rel == 'lt':
        v = x < y
    elif rel == 'le':
        v = x <= y
    elif rel == 'eq':
        v = x == y
    elif rel == 'signpos':
        v = x >= 0
        if x == 0:
            return True
    elif rel == 'signneg':
        v = x <= 0
        if x == 0:
            return True
    else:
        v = False
    return v == d


def replay_real(run, case, pctx, name, lhs, rhs, assign):
    """Replays one assignment against the native f64 build (and f32). Returns (reproduced, detail).
    Reproduced means: the point satisfies the domain and the path condition numerically, the
    implementation's real-arithmetic value differs from the oracle at 60 digits, and the native
    f64 result differs from the oracle far beyond rounding (or is NaN / a panic)."""
    shape, kind, pres = spec_of(case)
    fa = {k: float(v) for k, v in assign.items()}
    exact = {k: Fraction(v) for k, v in fa.items()}
    cache = {}
    f32_only = False
    try:
        def admissible(env, cache):
            return (all(eval_constraint(c, env, cache) for c in pctx.assume),
                    all(eval_cond(c, pctx.terms, env, cache) for c in pctx.path['conds']))
        dom, pth = admissible(exact, cache)
        if not (dom and pth):
            # the symbolic machine epsilon covers f32 as well: retry the point with the f32 epsilon
            exact32 = dict(exact)
            exact32['#EPSILON'] = mpmath.mpf(2) ** -23
            cache = {}
            dom32, pth32 = admissible(exact32, cache)
            if dom32 and pth32:
                exact = exact32
                f32_only = True
            else:
                return False, {'error': 'point outside the domain after rounding' if not dom
                               else 'point leaves the path after rounding'}
        want = ir.mp_eval(rhs, exact, cache)
    except (ir.Inconclusive, ZeroDivisionError, ValueError, KeyError) as e:
        return False, {'error': f'oracle evaluation failed: {e!r}'}
    try:
        impl_real = ir.mp_eval(lhs, exact, cache) if lhs is not None else mpmath.mpf(0)
    except (ZeroDivisionError, ValueError):
        impl_real = mpmath.nan
    except ir.Inconclusive as e:
        # the implementation's expression leaves the reals at the witness (e.g. a fractional power
        # of a negative number): undefined in exact arithmetic, like 0/0; the native run decides
        if 'complex value' not in str(e):
            raise
        impl_real = mpmath.nan
    big = mpmath.mpf('1e150')
    if abs(want) > big or (impl_real == impl_real and abs(impl_real) > big):
        return False, {'error': 'witness outside the f64 range (overflow is not a violation)'}
    nat = native_run(shape, kind, pres, fa, 'f64')
    nat32 = native_run(shape, kind, pres, fa, 'f32')
    detail = {'case': case_id(case), 'obligation': name, 'inputs': {k: repr(v) for k, v in fa.items()},
              'oracle': mpmath.nstr(want, 20), 'impl_real_semantics': mpmath.nstr(impl_real, 20)}
    if 'panic' in nat:
        detail['native_f64'] = 'panic: ' + nat['panic']
        return True, detail
    oname, idx = name.split('#')[0], name.split('#')[1].split('@')[0]

    hook = case.get('_native_lhs')

    def pick(res):
        if 'outputs' not in res:
            return None
        if hook is not None:
            # obligations that are identities over several outputs: the left-hand side is
            # recomputed from the native run's outputs by the caller's hook
            return hook(res, name.split('@')[0], fa)
        for (n, leaves) in res['outputs']:
            if n == oname:
                v = leaves[int(idx)]
                return 0.0 if v is None else float(v)
        return None
    got, got32 = pick(nat), pick(nat32)
    want_cmp, want_cmp32 = want, want
    if hook is not None and got is not None:
        # identity over several outputs: both sides are recomputed from the native run's outputs
        got, want_nat = got
        got32, want_nat32 = got32 if got32 is not None else (None, None)
        detail['native_rhs_f64'] = repr(want_nat)
        if want_nat != want_nat:
            got = float('nan')
        else:
            want_cmp = mpmath.mpf(want_nat)
        if want_nat32 is not None and want_nat32 == want_nat32:
            want_cmp32 = mpmath.mpf(want_nat32)
    detail['native_f64'] = repr(got)
    detail['native_f32'] = repr(got32)
    if got is None:
        return False, detail
    if got != got or got in (float('inf'), float('-inf')):
        # NaN / inf where the mathematical value is finite: a violation when the implementation's
        # expression is undefined in exact arithmetic as well (0/0, 0*inf at a special point) or
        # differs from the oracle there. If the exact value of the implementation's expression
        # equals the oracle, the NaN comes from an intermediate overflow/underflow of the float
        # evaluation at a far-out witness (exp(210)^4 ...): range effects are outside the claim.
        if impl_real == impl_real and abs(impl_real - want) <= mpmath.mpf('1e-9') * max(abs(want), mpmath.mpf(1e-300)):
            detail['note'] = 'native NaN/inf from intermediate overflow; exact value of the implementation equals the oracle'
            return False, detail
        return True, detail
    scale = max(abs(want), abs(want_cmp), abs(impl_real) if impl_real == impl_real else 0, mpmath.mpf(1e-300))
    diff = abs(mpmath.mpf(got) - want_cmp)
    detail['abs_diff'] = mpmath.nstr(diff, 8)
    ok = diff > mpmath.mpf('1e-7') * scale and not f32_only
    if not ok and got32 is not None and got32 == got32:
        # the symbolic epsilon covers f32 as well: a witness may only live in the f32 instantiation
        # (e.g. an argument between the f64 and the f32 machine epsilon)
        d32 = abs(mpmath.mpf(got32) - want_cmp32)
        if d32 > mpmath.mpf('1e-3') * scale:
            ok = True
            detail['reproduced_in'] = 'f32'
            detail['abs_diff_f32'] = mpmath.nstr(d32, 8)
    if impl_real == impl_real:
        ok = ok and abs(impl_real - want) > mpmath.mpf('1e-9') * scale
    return bool(ok), detail


def _find_witness(run, case, pctx, name, lhs, rhs, model, revars, mono, rng):
    """turn a coefficient-level (or monolithic) model into a reproducing native input"""
    names = pctx.var_names()
    base = model_assignment(model, names) if model is not None else {n: Fraction(0) for n in names}
    tries = []
    parts = [n for n in names if n not in revars]
    # 1: model's real parts, parts of the failing monomial = 1, others 0 (or model values)
    a1 = dict(base)
    if mono is not None:
        for p in parts:
            a1[p] = Fraction(1) if p in mono else Fraction(0)
    tries.append(a1)
    for k in range(6):
        a = dict(base)
        for p in parts:
            a[p] = Fraction(rng.randrange(-8, 9), 4)
            if mono is not None and p in mono and a[p] == 0:
                a[p] = Fraction(1)
        if k >= 3:
            for r in revars:
                a[r] = base.get(r, Fraction(0)) + Fraction(rng.randrange(-64, 65), 64)
        tries.append(a)
    last = None
    for a in tries:
        ok, detail = replay_real(run, case, pctx, name, lhs, rhs, a)
        last = detail
        if ok:
            return True, detail
    return False, last


def strengthen_guards(run, s, budget=40):
    """Guarded axioms `g => body` whose guard is entailed by the domain and path condition are
    replaced by `body` (so that nlsat's equation solving can eliminate the atom). Each guard is
    itself decided by the solver."""
    frame = s.stack[0]
    guards = {}
    for k, a in enumerate(frame):
        if z3.is_implies(a):
            guards.setdefault(a.arg(0).get_id(), (a.arg(0), []))[1].append(k)
    n = 0
    for gid, (g, idxs) in guards.items():
        if n >= budget:
            break
        n += 1
        s.push()
        s.add(z3.Not(g))
        r = run.check(s)
        s.pop()
        if r == z3.unsat:
            for k in idxs:
                frame[k] = frame[k].arg(1)
            frame.append(g)


def decide_path(run, case, pctx, obs, role, vacuity=True, revars=None, split=True, tol=None):
    """Decides all obligations of one path. obs: list of (name, lhs IR|None, rhs IR).
    Returns 'infeasible' | number of failed obligations."""
    import random
    from . import poly
    enc = pctx.enc
    rng = random.Random(run.seed + len(case['dag']))
    names = pctx.var_names()
    if revars is None:
        revars = set(names)
    partvars = set(n for n in names if n not in revars)
    # ---- split every obligation into coefficient obligations
    items = []   # (name, full lhs, full rhs, mono|None, l z3, r z3)
    tol_terms = {}
    for (name, lhs, rhs) in obs:
        done = False
        if split and partvars:
            try:
                cache = {}
                pl = poly.expand(lhs, partvars, cache) if lhs is not None else {}
                pr = poly.expand(rhs, partvars, cache)
                for m in sorted(set(pl) | set(pr)):
                    cl, cr = pl.get(m, ir.ZERO), pr.get(m, ir.ZERO)
                    items.append((f"{name}@{'*'.join(m) or '1'}", lhs, rhs, m, enc.enc(cl), enc.enc(cr)))
                    if callable(tol):
                        tol_terms[len(items) - 1] = enc.enc(tol(cr))
                if not (set(pl) | set(pr)):
                    items.append((name, lhs, rhs, None, ir.Q(z3.RealVal(0)), ir.Q(z3.RealVal(0))))
                done = True
            except poly.NotPoly:
                done = False
        if not done:
            l = enc.enc(lhs) if lhs is not None else ir.Q(z3.RealVal(0))
            items.append((name, lhs, rhs, None, l, enc.enc(rhs)))
            if callable(tol):
                tol_terms[len(items) - 1] = enc.enc(tol(rhs))
    s = pctx.base_solver()
    run.paths += 1
    res = run.check(s)
    if res == z3.unsat:
        run.infeasible_paths += 1
        return 'infeasible'
    if res == z3.unknown:
        run.inconclusive.append({'case': case_id(case), 'reason': 'feasibility of path undecided'})
        return 1
    pctx.feasible = True
    failed = 0
    strengthen_guards(run, s)
    # ---- definedness of every partial operation on the domain and path
    for (constraint, what) in enc.defs:
        run.obligations += 1
        s.push()
        s.add(z3.Not(constraint))
        r = run.check(s)
        model = s.model() if r == z3.sat else None
        s.pop()
        if r == z3.unsat:
            run.discharged += 1
            s.add(constraint)
            continue
        failed += 1
        if r == z3.unknown:
            run.inconclusive.append({'case': case_id(case), 'obligation': 'defined: ' + what,
                                     'reason': 'solver unknown/timeout'})
            continue
        # replay against the first output leaf that is not finite / wrong
        hit = False
        for (name, lhs, rhs) in obs:
            ok, detail = replay_real(run, case, pctx, name, lhs, rhs, model_assignment(model, names))
            if ok:
                detail['role'] = role(name) if callable(role) else role
                detail['undefined_operation'] = what
                run.violations.append(detail)
                hit = True
                break
        if not hit:
            run.inconclusive.append({'case': case_id(case), 'obligation': 'defined: ' + what,
                                     'reason': 'undefined operation reachable for the solver; no output part '
                                               'reproduced a deviation natively'})
    did_vac = not vacuity
    nontrivial = False
    reported = set()
    for item_idx, (name, lhs, rhs, mono, l, r) in enumerate(items):
        run.obligations += 1
        if l.same(r):
            run.queries += 1
            run.discharged += 1
            continue
        nontrivial = True
        s.push()
        if tol is None:
            s.add(z3.Not(ir.q_eq_normalised(l, r)))
        else:
            tq = tol_terms[item_idx] if callable(tol) else ir.Q(z3.Q(tol.numerator, tol.denominator))
            s.add(z3.Or(ir.q_lt(tq, ir.q_add(l, r, -1)), ir.q_lt(tq, ir.q_add(r, l, -1))))
        res = run.check(s)
        model = s.model() if res == z3.sat else None
        s.pop()
        if res == z3.unsat:
            run.discharged += 1
            if not did_vac:
                # reachability witness: the same obligation with the oracle perturbed must fail
                s.push()
                s.add(z3.Not(ir.q_eq(l, ir.q_add(r, ir.Q(z3.RealVal(1))))))
                if run.check(s) == z3.sat:
                    run.vacuity_witnesses += 1
                else:
                    run.inconclusive.append({'case': case_id(case), 'obligation': name,
                                             'reason': 'vacuity witness not satisfiable'})
                    failed += 1
                s.pop()
                did_vac = True
            continue
        failed += 1
        if res == z3.unknown:
            run.inconclusive.append({'case': case_id(case), 'obligation': name,
                                     'reason': 'solver unknown/timeout'})
            continue
        base = name.split('@')[0]
        if base in reported:
            continue
        # steer the witness away from boundaries, then replay natively
        for gap in (Fraction(1), Fraction(1, 16), Fraction(1, 65536)):
            s.push()
            g = ir.Q(z3.Q(gap.numerator, gap.denominator))
            s.add(z3.Or(ir.q_lt(g, ir.q_add(l, r, -1)), ir.q_lt(g, ir.q_add(r, l, -1))))
            for n in revars:
                v = z3.Real(n)
                s.add(v >= -16, v <= 16)
            rr = run.check(s)
            if rr == z3.sat:
                model = s.model()
            s.pop()
            if rr == z3.sat:
                break
        ok, detail = _find_witness(run, case, pctx, name, lhs, rhs, model, revars, mono, rng)
        detail = detail or {}
        detail['role'] = role(name) if callable(role) else role
        if ok:
            run.violations.append(detail)
            reported.add(base)
        else:
            detail.update({'case': case_id(case), 'obligation': name,
                           'reason': 'solver model did not reproduce natively'})
            run.inconclusive.append(detail)
    if items:
        run.case_keys.add(case_id(case))
    return failed


def decide_infeasible(run, case, pctx, what, role):
    """A path that panics (or must not exist) has to be infeasible on the domain."""
    run.obligations += 1
    s = pctx.base_solver()
    res = run.check(s)
    if res == z3.unsat:
        run.discharged += 1
        return True
    if res == z3.unknown:
        run.inconclusive.append({'case': case_id(case), 'obligation': what, 'reason': 'solver unknown'})
        return False
    names = pctx.var_names()
    assign = model_assignment(s.model(), names)
    shape, kind, pres = spec_of(case)
    fa = {k: float(v) for k, v in assign.items()}
    nat = native_run(shape, kind, pres, fa, 'f64')
    detail = {'case': case_id(case), 'obligation': what, 'inputs': {k: repr(v) for k, v in fa.items()},
              'native_f64': nat.get('panic', 'no panic'), 'role': role}
    if 'panic' in nat:
        run.violations.append(detail)
    else:
        detail['reason'] = 'panic path feasible for the solver but native run did not panic'
        run.inconclusive.append(detail)
    return False


def check_validation(run, case):
    v = case['validation']
    run.validated += v['checked']
    if v['errors']:
        run.inconclusive.append({'case': case_id(case), 'reason': 'translator validation failed: symbolic scalar '
                                 'misrepresents the code', 'errors': v['errors'][:3]})
        return False
    if case.get('truncated'):
        run.inconclusive.append({'case': case_id(case), 'reason': 'path enumeration truncated'})
        return False
    return True


# ---------------------------------------------------------------------------------------------
# evidence / exit codes
# ---------------------------------------------------------------------------------------------
def load_known():
    p = os.path.join(VERIF, 'known_findings.json')
    if not os.path.exists(p):
        return {'open': [], 'fixed': []}
    with open(p) as f:
        return json.load(f)


def finish(run, level, explanation, trusted_base, checker_cmd):
    known = load_known()
    open_findings = [k for k in known.get('open', []) if k['property'] == run.prop]
    real_violations = []
    hit = set()
    for v in run.violations:
        matched = None
        for k in open_findings:
            if k['role'] == v.get('role'):
                matched = k
                break
        if matched:
            hit.add(matched['role'])
            run.known.append(v)
        else:
            real_violations.append(v)
    os.makedirs(os.path.join(VERIF, 'evidence'), exist_ok=True)
    os.makedirs(os.path.join(VERIF, 'replays'), exist_ok=True)
    wall = time.time() - run.t0
    cov = {
        # obligations that fail exactly as recorded in an open known finding are not part of the
        # claim at this level; they are counted separately
        'obligations': run.obligations - len(run.known),
        'known_finding_obligations': len(run.known),
        'discharged': run.discharged,
        'checker_cmd': checker_cmd,
        'trusted_base': trusted_base,
        'evaluations': max(run.queries, 1),
        'distinct_nontrivial': max(len(run.case_keys), 0),
        'rule': 'one evaluation = one solver query (SMT or CBMC harness); a case is distinct by (operation, type '
                'instantiation, presence pattern) resp. by Kani harness; non-trivial = the case reached the '
                'solver with at least one obligation between two independently obtained terms (traced '
                'implementation output vs oracle, or outputs of two different operator forms / types)',
        'samples': run.samples,
        'explanation': explanation,
        'functions_encoded': sorted(run.functions),
        'instantiations': sorted(run.instantiations),
        'bounds': run.bounds,
        'cases_traced': run.cases,
        'paths_explored': run.paths,
        'paths_infeasible': run.infeasible_paths,
        'solver_queries': run.queries,
        'solver_time_s': round(run.solver_time, 3),
        'translator_validation_runs': run.validated,
        'vacuity_witnesses_sat': run.vacuity_witnesses,
        'inconclusive': run.inconclusive[:20],
        'known_findings_hit': [v.get('role') for v in run.known],
        'kani_harnesses': run.kani,
        'exhaustive': False,
        'notes': run.notes,
    }
    ev = {
        'property_id': run.prop,
        'tier': run.tier,
        'seed': int(run.seed),
        'level': level,
        'coverage': cov,
        'assumptions': run.assumptions,
        'wall_s': round(wall, 2),
        'violations': len(real_violations),
    }
    with open(os.path.join(VERIF, 'evidence', f'{run.prop}.json'), 'w') as f:
        json.dump(ev, f, indent=1, default=str)
    for k in open_findings:
        if k['role'] in hit:
            print(f"KNOWN-FINDING: property={run.prop} {k['what']}")
    code = 0
    if real_violations:
        for i, v in enumerate(real_violations[:5]):
            h = hashlib.sha1(json.dumps(v, sort_keys=True, default=str).encode()).hexdigest()[:10]
            path = os.path.join(VERIF, 'replays', f'{run.prop}_{h}.json')
            with open(path, 'w') as f:
                json.dump(v, f, indent=1, default=str)
            print(f'VIOLATION property={run.prop} replay={path}')
            print('  ' + json.dumps(v, default=str)[:600])
        code = 1
    elif run.inconclusive:
        print(f'INCONCLUSIVE property={run.prop}: {len(run.inconclusive)} obligation(s) undecided')
        for x in run.inconclusive[:5]:
            print('  ' + json.dumps(x, default=str)[:400])
        code = 2
    print(f'{run.prop} {run.tier}: obligations={run.obligations} discharged={run.discharged} '
          f'cases={run.cases} paths={run.paths} (infeasible {run.infeasible_paths}) queries={run.queries} '
          f'solver={run.solver_time:.1f}s wall={wall:.1f}s violations={len(real_violations)} '
          f'known={len(run.known)} inconclusive={len(run.inconclusive)}')
    return code
