"""Term IR shared by the traced implementation DAG and the oracles.

A term is a hash-consed tuple:
  ('var', name) | ('const', Fraction) | ('named', NAME) |
  ('add'|'sub'|'mul'|'div', a, b) | ('neg', a) | ('powi', a, n) |
  ('fn', fname, a[, b]) | ('ite', ('lt'|'le'|'eq', a, b), x, y) | ('muladd', a, b, c)
Backends: RealEnc (z3, exact real arithmetic with Ackermannised function atoms and true
axioms), EufEnc (z3, every operation uninterpreted), and mp_eval (mpmath, 60 digits).
"""
from fractions import Fraction
import struct
import itertools
import z3
import mpmath

mpmath.mp.dps = 60

_TAB = {}


def T(*t):
    return _TAB.setdefault(t, t)


def var(n):
    return T('var', n)


def const(v):
    return T('const', Fraction(v))


ZERO = const(0)
ONE = const(1)


def add(a, b):
    if a is ZERO:
        return b
    if b is ZERO:
        return a
    if a[0] == 'const' and b[0] == 'const':
        return T('const', a[1] + b[1])
    return T('add', a, b)


def sub(a, b):
    if b is ZERO:
        return a
    if a is ZERO:
        return neg(b)
    if a[0] == 'const' and b[0] == 'const':
        return T('const', a[1] - b[1])
    return T('sub', a, b)


def mul(a, b):
    if a is ZERO or b is ZERO:
        return ZERO
    if a is ONE:
        return b
    if b is ONE:
        return a
    if a[0] == 'const' and b[0] == 'const':
        return T('const', a[1] * b[1])
    return T('mul', a, b)


def div(a, b):
    return T('div', a, b)


def neg(a):
    if a[0] == 'const':
        return T('const', -a[1])
    if a[0] == 'neg':
        return a[1]
    return T('neg', a)


def fn(name, *args):
    return T('fn', name, *args)


def powi(a, n):
    return T('powi', a, int(n))


def float_bits_to_fraction(bits):
    f = struct.unpack('<d', struct.pack('<Q', bits))[0]
    return Fraction(f)  # exact dyadic value


def literal_fraction(bits):
    """Stated literal-reading rule: a constant that is the nearest double of p/q (q <= 64) and is
    not itself a short dyadic is read as p/q (only 1.0/3.0 in cbrt today)."""
    f = struct.unpack('<d', struct.pack('<Q', bits))[0]
    if f != f or f in (float('inf'), float('-inf')):
        raise Inconclusive('non-finite literal')
    exact = Fraction(f)
    if exact.denominator <= 2 ** 20:
        return exact
    cand = exact.limit_denominator(64)
    if float(cand) == f:
        return cand
    return exact


class Inconclusive(Exception):
    pass


NAMED_ENCLOSURE = {
    # name: (mpmath value thunk)
    'E': lambda: mpmath.e,
    'PI': lambda: mpmath.pi,
    'TAU': lambda: 2 * mpmath.pi,
    'FRAC_1_PI': lambda: 1 / mpmath.pi,
    'FRAC_1_SQRT_2': lambda: 1 / mpmath.sqrt(2),
    'FRAC_2_PI': lambda: 2 / mpmath.pi,
    'FRAC_2_SQRT_PI': lambda: 2 / mpmath.sqrt(mpmath.pi),
    'FRAC_PI_2': lambda: mpmath.pi / 2,
    'FRAC_PI_3': lambda: mpmath.pi / 3,
    'FRAC_PI_4': lambda: mpmath.pi / 4,
    'FRAC_PI_6': lambda: mpmath.pi / 6,
    'FRAC_PI_8': lambda: mpmath.pi / 8,
    'LN_10': lambda: mpmath.log(10),
    'LN_2': lambda: mpmath.log(2),
    'LOG10_E': lambda: 1 / mpmath.log(10),
    'LOG2_E': lambda: 1 / mpmath.log(2),
    'SQRT_2': lambda: mpmath.sqrt(2),
    'LOG10_2': lambda: mpmath.log(2) / mpmath.log(10),
    'LOG2_10': lambda: mpmath.log(10) / mpmath.log(2),
}


def dag_to_terms(dag):
    """Decode symtrace's DAG (list of nodes) into IR terms, index-aligned."""
    out = []
    for n in dag:
        k = n[0]
        if k == 'var':
            t = var(n[1])
        elif k == 'const':
            t = T('const', literal_fraction(int(n[1])))
        elif k == 'named':
            t = T('named', n[1])
        elif k == 'un':
            op, a = n[1], out[n[2]]
            op = {'expm1': 'exp_m1', 'ln1p': 'ln_1p'}.get(op, op)
            t = neg(a) if op == 'neg' else T('fn', op, a)
        elif k == 'bin':
            op, a, b = n[1], out[n[2]], out[n[3]]
            if op in ('add', 'sub', 'mul', 'div'):
                t = T(op, a, b)
            else:
                t = T('fn', op, a, b)
        elif k == 'powi':
            t = T('powi', out[n[1]], int(n[2]))
        elif k == 'muladd':
            t = T('muladd', out[n[1]], out[n[2]], out[n[3]])
        else:
            raise ValueError(n)
        out.append(t)
    return out


def subst(t, mapping, cache=None):
    """replace variables by terms: mapping name -> term"""
    if cache is None:
        cache = {}
    r = cache.get(t)
    if r is not None:
        return r
    k = t[0]
    if k == 'var':
        r = mapping.get(t[1], t)
    elif k in ('const', 'named'):
        r = t
    elif k == 'ite':
        r = T('ite', (t[1][0], subst(t[1][1], mapping, cache), subst(t[1][2], mapping, cache)),
              subst(t[2], mapping, cache), subst(t[3], mapping, cache))
    else:
        r = T(*[subst(x, mapping, cache) if isinstance(x, tuple) else x for x in t])
    cache[t] = r
    return r


def support(t, acc=None):
    """set of variable names a term depends on (syntactically)"""
    if acc is None:
        acc = set()
    seen = set()
    stack = [t]
    while stack:
        x = stack.pop()
        if id(x) in seen:
            continue
        seen.add(id(x))
        if x[0] == 'var':
            acc.add(x[1])
        else:
            for y in x[1:]:
                if isinstance(y, tuple):
                    stack.append(y)
    return acc


# ---------------------------------------------------------------------------------------------
# Real reading
# ---------------------------------------------------------------------------------------------
_ONE = z3.RealVal(1)


class Q:
    """a rational expression n/d over z3 reals (d is None for 1). The denominator is kept as a
    product of factors with multiplicities (f: id -> (expr, power)) so that sums use the least
    common denominator instead of the product; every denominator is separately shown non-zero on
    the domain (definedness obligations)."""
    __slots__ = ('n', 'f', '_d')

    def __init__(self, n, d=None, f=None):
        self.n = n
        if f is not None:
            self.f = f
        elif d is None:
            self.f = {}
        else:
            self.f = {d.get_id(): (d, 1)}
        self._d = d if (f is None) else None

    @property
    def d(self):
        if not self.f:
            return None
        if self._d is None:
            self._d = _fprod(self.f)
        return self._d

    def key(self):
        return (self.n.get_id(), tuple(sorted((k, p) for k, (_e, p) in self.f.items())))

    def same(self, o):
        return self.n.eq(o.n) and self.key()[1] == o.key()[1]


def _fprod(f):
    r = None
    for k in sorted(f):
        e, p = f[k]
        t = _zpow(e, p)
        r = t if r is None else r * t
    return _ONE if r is None else r


def _lcd(fa, fb):
    L = dict(fa)
    for k, (e, p) in fb.items():
        if k not in L or L[k][1] < p:
            L[k] = (e, p)
    return L


def _cof(L, f):
    """L / f as a z3 product (None for 1)"""
    r = None
    for k in sorted(L):
        e, p = L[k]
        q = p - (f[k][1] if k in f else 0)
        if q > 0:
            t = _zpow(e, q)
            r = t if r is None else r * t
    return r


def _scaled(n, c):
    return n if c is None else n * c


def q_eq(a, b):
    """z3 constraint a == b (denominators non-zero)"""
    if a.key()[1] == b.key()[1]:
        return a.n == b.n
    L = _lcd(a.f, b.f)
    return _scaled(a.n, _cof(L, a.f)) == _scaled(b.n, _cof(L, b.f))


import threading
import contextlib


@contextlib.contextmanager
def z3_deadline(seconds):
    """hard wall-clock bound on z3 library calls: a timer thread interrupts the context (z3's own
    timeout parameter is not honoured inside some nlsat / simplifier loops)"""
    ctx = z3.main_ctx()
    t = threading.Timer(seconds, ctx.interrupt)
    t.daemon = True
    t.start()
    try:
        yield
    finally:
        t.cancel()


def q_diff_num(a, b):
    L = _lcd(a.f, b.f)
    return _scaled(a.n, _cof(L, a.f)) - _scaled(b.n, _cof(L, b.f))


def q_eq_normalised(a, b):
    """a == b with the cross-multiplied difference brought to sum-of-monomials form by z3's
    simplifier first (a polynomial identity then becomes the literal 0 == 0)"""
    raw = q_diff_num(a, b)
    try:
        with z3_deadline(20):
            diff = z3.simplify(raw, som=True, som_blowup=10 ** 6)
    except z3.Z3Exception:
        diff = raw
    return diff == 0


def _odd_sign(L):
    r = None
    for k in sorted(L):
        e, p = L[k]
        if p % 2 == 1:
            r = e if r is None else r * e
    return r


def q_lt(a, b, strict=True):
    if not a.f and not b.f:
        return a.n < b.n if strict else a.n <= b.n
    L = _lcd(a.f, b.f)
    diff = _scaled(a.n, _cof(L, a.f)) - _scaled(b.n, _cof(L, b.f))   # (a - b) * L
    sg = _odd_sign(L)
    v = diff if sg is None else diff * sg                            # sign(a - b) = sign(v)
    return v < 0 if strict else v <= 0


def q_sign(a, rel):
    """constraint on the sign of a: rel in '>0','>=0','<0','<=0','!=0','==0'"""
    sg = _odd_sign(a.f)
    v = a.n if sg is None else a.n * sg
    return {'>0': v > 0, '>=0': v >= 0, '<0': v < 0, '<=0': v <= 0, '!=0': a.n != 0, '==0': a.n == 0}[rel]


def q_add(a, b, sign=1):
    bn = b.n if sign == 1 else -b.n
    if not a.f and not b.f:
        return Q(a.n + bn)
    L = _lcd(a.f, b.f)
    return Q(_scaled(a.n, _cof(L, a.f)) + _scaled(bn, _cof(L, b.f)), f=L)


def _cancel(n, f):
    """n / prod(f): cancel when the numerator is literally one of the factors"""
    k = n.get_id()
    if k in f:
        e, p = f[k]
        g = dict(f)
        if p == 1:
            del g[k]
        else:
            g[k] = (e, p - 1)
        return _ONE, g
    return n, f


def q_mul(a, b):
    an, bf = _cancel(a.n, b.f) if b.f else (a.n, b.f)
    bn, af = _cancel(b.n, a.f) if a.f else (b.n, a.f)
    if an is _ONE:
        n = bn
    elif bn is _ONE:
        n = an
    else:
        n = an * bn
    f = dict(af)
    for k, (e, p) in bf.items():
        f[k] = (e, p + (f[k][1] if k in f else 0))
    return Q(n, f=f)


def q_recip(a):
    n = a.d if a.f else _ONE
    sn = a.n
    if z3.is_rational_value(sn) and sn.numerator_as_long() != 0:
        c = Fraction(sn.denominator_as_long(), sn.numerator_as_long())
        return Q(n * z3.Q(c.numerator, c.denominator))
    if z3.is_app(sn) and sn.decl().kind() == z3.Z3_OP_UMINUS:
        inner = sn.arg(0)
        return Q(-n, f={inner.get_id(): (inner, 1)})
    return Q(n, f={sn.get_id(): (sn, 1)})


def _q_ite(c, p, q):
    if not p.f and not q.f:
        return Q(z3.If(c, p.n, q.n))
    L = _lcd(p.f, q.f)
    return Q(z3.If(c, _scaled(p.n, _cof(L, p.f)), _scaled(q.n, _cof(L, q.f))), f=L)


def q_pow(a, k):
    n = _zpow(a.n, k)
    return Q(n, f={i: (e, p * k) for i, (e, p) in a.f.items()})


ODD_FUNCS = ('sin', 'asin', 'atan', 'sinh', 'asinh', 'atanh', 'cbrt')
EVEN_FUNCS = ('cos', 'cosh')


class RealEnc:
    """IR -> rational expressions over z3 Reals. Elementary functions become Ackermannised atoms
    (one fresh real per distinct (function, argument term)) constrained only by true axioms."""

    def __init__(self):
        self.cache = {}
        self.atoms = {}      # (fname, argkeys...) -> z3 var
        self.atom_args = {}  # fname -> list of (args Q tuple, val)
        self.axioms = []
        self.pows = []       # (base Q, exponent (int | Q), val)
        self.named = {}
        self.n = 0
        self.defs = []       # definedness side conditions (constraint, description)
        self.link_pow_exp = False

    def fresh(self, hint):
        self.n += 1
        return z3.Real(f'@{hint}{self.n}')

    def enc(self, t):
        r = self.cache.get(t)
        if r is not None:
            return r
        r = self._enc(t)
        self.cache[t] = r
        return r

    def named_var(self, name):
        if name in self.named:
            return self.named[name]
        v = z3.Real('#' + name)
        self.named[name] = v
        if name == 'EPSILON':
            # covers f32 (2^-23) and f64 (2^-52) at once
            self.axioms += [v > 0, v <= z3.Q(1, 2 ** 23)]
        elif name == 'MAX':
            self.axioms += [v >= z3.RealVal(2) ** 127]
        elif name == 'MIN':
            self.axioms += [v <= -(z3.RealVal(2) ** 127)]
        elif name == 'MIN_POSITIVE':
            self.axioms += [v > 0, v <= z3.Q(1, 2 ** 126)]
        elif name in NAMED_ENCLOSURE:
            val = NAMED_ENCLOSURE[name]()
            lo = Fraction(int(mpmath.floor(val * 10 ** 30)), 10 ** 30)
            hi = lo + Fraction(1, 10 ** 30)
            self.axioms += [v > z3.Q(lo.numerator, lo.denominator), v < z3.Q(hi.numerator, hi.denominator)]
        else:
            raise Inconclusive(f'named constant {name} has no real reading')
        return v

    def need(self, constraint, what):
        self.defs.append((constraint, what))

    def _canon_key(self, q):
        """argument identity modulo polynomial normal form (so that sin(x*y) of the oracle and
        sin(y*x) of the implementation are one atom)"""
        try:
            with z3_deadline(5):
                n = z3.simplify(q.n, som=True, som_blowup=2000)
                d = None if q.d is None else z3.simplify(q.d, som=True, som_blowup=2000)
        except z3.Z3Exception:
            return q.key()
        return (n.get_id(), None if d is None else d.get_id())

    def _same_value(self, p, q):
        if p.same(q):
            return True
        try:
            with z3_deadline(5):
                diff = z3.simplify(q_diff_num(p, q), som=True, som_blowup=20000)
        except z3.Z3Exception:
            return False
        return z3.is_rational_value(diff) and diff.numerator_as_long() == 0

    def _point_facts(self, f, args, v):
        """exact values of the functions at their distinguished points (true facts)"""
        a = args[0]
        A = self.axioms
        zero = {'sin': 0, 'cos': 1, 'tan': 0, 'sinh': 0, 'cosh': 1, 'tanh': 0, 'asin': 0, 'atan': 0,
                'asinh': 0, 'atanh': 0, 'exp': 1, 'exp2': 1, 'sqrt': 0, 'cbrt': 0}
        if f in zero:
            A.append(z3.Implies(q_sign(a, '==0'), v == zero[f]))
        if f in ('ln', 'acosh'):
            A.append(z3.Implies(q_eq(a, Q(_ONE)), v == 0))
        if f in ('sqrt', 'cbrt'):
            A.append(z3.Implies(q_eq(a, Q(_ONE)), v == 1))

    def atom(self, fname, *args):
        """args: Q values; returns Q"""
        a = args[0]
        if fname == 'recip':
            self.need(q_sign(a, '!=0'), 'reciprocal/division by zero')
            return q_recip(a)
        # derived functions are encoded by their definitions over base atoms, so that the
        # implementation and the oracle share atoms
        if fname == 'tan':
            return q_mul(self.atom('sin', a), self.atom('recip', self.atom('cos', a)))
        if fname == 'tanh':
            return q_mul(self.atom('sinh', a), self.atom('recip', self.atom('cosh', a)))
        if fname == 'exp_m1':
            return q_add(self.atom('exp', a), Q(_ONE), -1)
        if fname == 'ln_1p':
            return self.atom('ln', q_add(a, Q(_ONE)))
        if fname == 'log2':
            return q_mul(self.atom('ln', a), self.atom('recip', self.atom('ln', Q(z3.RealVal(2)))))
        if fname == 'log10':
            return q_mul(self.atom('ln', a), self.atom('recip', self.atom('ln', Q(z3.RealVal(10)))))
        if fname == 'log':
            return q_mul(self.atom('ln', a), self.atom('recip', self.atom('ln', args[1])))
        if fname == 'sqrt' and a.d is not None:
            # sqrt(n/d) = sqrt(n*d)/|d|: radicands are kept polynomial so that sqrt(1/p) and
            # 1/sqrt(p) meet in the same atom
            s = self.atom('sqrt', Q(a.n * a.d))
            self.need(q_sign(a, '>=0'), 'sqrt of a negative number')
            return Q(s.n, z3.If(a.d > 0, a.d, -a.d))
        key = (fname,) + tuple(self._canon_key(x) for x in args)
        if key in self.atoms:
            return Q(self.atoms[key])
        lst = self.atom_args.setdefault(fname, [])
        # same argument modulo rational normal form (cross-multiplied difference is the zero
        # polynomial): the very same atom
        for (oargs, oval) in lst:
            if all(self._same_value(p, q) for p, q in zip(args, oargs)):
                self.atoms[key] = oval
                return Q(oval)
        # odd / even symmetry: f(-b) = -f(b) resp. f(b) for an existing atom f(b)
        if len(args) == 1 and fname in ODD_FUNCS + EVEN_FUNCS:
            na = Q(-a.n, f=a.f)
            for (oargs, oval) in lst:
                if self._same_value(na, oargs[0]):
                    return Q(-oval) if fname in ODD_FUNCS else Q(oval)
        v = self.fresh(fname)
        self.atoms[key] = v
        # functional consistency with earlier atoms of the same function
        for (oargs, oval) in lst:
            self.axioms.append(z3.Implies(z3.And(*[q_eq(p, q) for p, q in zip(args, oargs)]), v == oval))
        lst.append((args, v))
        self._axioms_for(fname, args, v)
        self._point_facts(fname, args, v)
        return Q(v)

    def _axioms_for(self, f, args, v):
        A = self.axioms
        a = args[0]
        if f == 'sqrt':
            self.need(q_sign(a, '>=0'), 'sqrt of a negative number')
            A.append(z3.Implies(q_sign(a, '>=0'), z3.And(q_eq(Q(v * v), a), v >= 0)))
            A.append(z3.Implies(q_sign(a, '>0'), v > 0))
        elif f == 'cbrt':
            A.append(q_eq(Q(v * v * v), a))
            A.append(z3.And(z3.Implies(q_sign(a, '>0'), v > 0), z3.Implies(q_sign(a, '<0'), v < 0)))
        elif f in ('exp', 'exp2'):
            A.append(v > 0)
        elif f == 'sin':
            c = self.atom('cos', a).n
            A.append(v * v + c * c == 1)
        elif f == 'cos':
            pass  # the identity is added from the sin side when both exist
        elif f == 'sinh':
            c = self.atom('cosh', a).n
            A.append(c * c - v * v == 1)
        elif f == 'cosh':
            A.append(v >= 1)
        elif f == 'hypot':
            b = args[1]
            A.append(z3.And(v >= 0, q_eq(Q(v * v), q_add(q_mul(a, a), q_mul(b, b)))))
        elif f == 'ln':
            self.need(q_sign(a, '>0'), 'logarithm of a non-positive number')
        elif f in ('asin', 'acos'):
            self.need(z3.And(q_lt(Q(z3.RealVal(-1)), a, False), q_lt(a, Q(_ONE), False)), f + ' outside [-1,1]')
        elif f == 'acosh':
            self.need(q_lt(Q(_ONE), a, False), 'acosh below 1')
        elif f == 'atanh':
            self.need(z3.And(q_lt(Q(z3.RealVal(-1)), a), q_lt(a, Q(_ONE))), 'atanh outside (-1,1)')
        elif f == 'atan2':
            # atan2(y, x) = atan(y/x) for x > 0 (sympy rewrites atan2 with a positive second argument)
            y, x = args
            A.append(z3.Implies(q_sign(x, '>0'), v == self.atom('atan', q_mul(y, q_recip(x))).n))
        elif f in ('atan', 'asinh'):
            pass
        else:
            raise Inconclusive(f'no real reading for function {f}')

    def ln_const_axioms(self):
        """ln(q) enclosures for rational literals q (only if such atoms exist)."""
        for (args, v) in self.atom_args.get('ln', []):
            if args[0].d is not None:
                continue
            a = z3.simplify(args[0].n)
            if z3.is_rational_value(a):
                q = Fraction(a.numerator_as_long(), a.denominator_as_long())
                if q > 0:
                    val = mpmath.log(mpmath.mpf(q.numerator) / q.denominator)
                    lo = Fraction(int(mpmath.floor(val * 10 ** 30)), 10 ** 30)
                    hi = lo + Fraction(1, 10 ** 30)
                    self.axioms += [v > z3.Q(lo.numerator, lo.denominator), v < z3.Q(hi.numerator, hi.denominator)]

    def pow_atom(self, base, expo):
        """x^e for an integer constant beyond the expansion bound, or a real-valued exponent term.
        Exponent laws are applied syntactically: x^e = P * x^(e - e0) for an anchor atom P = x^e0
        of the same base whose exponent differs by an integer constant (x != 0 on the domain)."""
        is_int = isinstance(expo, int)
        if is_int and abs(expo) <= 48:
            return q_pow(base, expo) if expo > 0 else (Q(_ONE) if expo == 0 else q_recip(q_pow(base, -expo)))
        for (b, e, v) in self.pows:
            if not b.same(base):
                continue
            if is_int and isinstance(e, int):
                d = expo - e
            elif (not is_int) and (not isinstance(e, int)):
                dz = z3.simplify(q_add(expo, e, -1).n) if (expo.d is None and e.d is None) else None
                d = dz.as_long() if (dz is not None and z3.is_int_value(dz)) or \
                    (dz is not None and z3.is_rational_value(dz) and dz.denominator_as_long() == 1) else None
            else:
                d = None
            if d is not None and abs(d) <= 12:
                if d == 0:
                    return Q(v)
                if d > 0:
                    return q_mul(Q(v), q_pow(base, d))
                return q_mul(Q(v), q_recip(q_pow(base, -d)))
        if not is_int and expo.d is None:
            ez = z3.simplify(expo.n)
            if z3.is_rational_value(ez):
                # constant exponent e = k + f, 0 <= f < 1: x^e = x^k * x^f with sqrt / cbrt for f
                e = Fraction(ez.numerator_as_long(), ez.denominator_as_long())
                k = e.numerator // e.denominator
                f = e - k
                if abs(k) <= 16 and f in (Fraction(0), Fraction(1, 2), Fraction(1, 3), Fraction(2, 3)):
                    self.need(q_sign(base, '>0'), 'real power of a non-positive base')
                    ip = Q(_ONE) if k == 0 else (q_pow(base, k) if k > 0 else q_recip(q_pow(base, -k)))
                    if f == 0:
                        return ip
                    if f == Fraction(1, 2):
                        return q_mul(ip, self.atom('sqrt', base))
                    c = self.atom('cbrt', base)
                    return q_mul(ip, c if f == Fraction(1, 3) else q_mul(c, c))
        v = self.fresh('pow')
        if is_int:
            nz = q_sign(base, '!=0')
            if expo < 0:
                self.need(nz, 'negative integer power of zero')
            self.axioms.append(z3.Implies(nz, v != 0))
            if expo % 2 == 0:
                self.axioms.append(z3.Implies(nz, v > 0))
            self.axioms.append(z3.Implies(q_sign(base, '>0'), v > 0))
            for (b, e, ov) in self.pows:
                if b.same(base) and isinstance(e, int) and abs(e + expo) <= 12:
                    k = e + expo
                    rhs = q_pow(base, k) if k > 0 else (Q(_ONE) if k == 0 else q_recip(q_pow(base, -k)))
                    self.axioms.append(z3.Implies(nz, q_eq(Q(v * ov), rhs)))
        if not is_int:
            self.need(q_sign(base, '>0'), 'real power of a non-positive base')
            self.axioms.append(z3.Implies(q_sign(base, '>0'), v > 0))
            if self.link_pow_exp:
                # b^e = exp(e ln b) for b > 0 (sympy rewrites exp(e*log(b)) as b**e)
                lnb = self.atom('ln', base)
                ex = self.atom('exp', q_mul(expo, lnb))
                self.axioms.append(z3.Implies(q_sign(base, '>0'), q_eq(Q(v), ex)))
            # the anchor's values at small integer exponents (special-case paths n == 0, 1, 2, 3)
            for k in range(-2, 9):
                val = Q(_ONE) if k == 0 else (q_pow(base, k) if k > 0 else q_recip(q_pow(base, -k)))
                self.axioms.append(z3.Implies(q_eq(expo, Q(z3.RealVal(k))), q_eq(Q(v), val)))
        self.pows.append((base, expo, v))
        return Q(v)

    def _enc(self, t):
        k = t[0]
        if k == 'var':
            return Q(z3.Real(t[1]))
        if k == 'const':
            return Q(z3.Q(t[1].numerator, t[1].denominator))
        if k == 'named':
            return Q(self.named_var(t[1]))
        if k == 'add':
            return q_add(self.enc(t[1]), self.enc(t[2]))
        if k == 'sub':
            return q_add(self.enc(t[1]), self.enc(t[2]), -1)
        if k == 'mul':
            return q_mul(self.enc(t[1]), self.enc(t[2]))
        if k == 'neg':
            a = self.enc(t[1])
            return Q(-a.n, f=a.f)
        if k == 'muladd':
            return q_add(q_mul(self.enc(t[1]), self.enc(t[2])), self.enc(t[3]))
        if k == 'div':
            a, b = self.enc(t[1]), self.enc(t[2])
            if b.d is None:
                bs = z3.simplify(b.n)
                if z3.is_rational_value(bs) and bs.numerator_as_long() != 0:
                    q = Fraction(bs.denominator_as_long(), bs.numerator_as_long())
                    return Q(a.n * z3.Q(q.numerator, q.denominator), f=a.f)
            return q_mul(a, self.atom('recip', b))
        if k == 'powi':
            a, n = self.enc(t[1]), t[2]
            if 0 <= n <= 8:
                return q_pow(a, n) if n > 0 else Q(_ONE)
            if -8 <= n < 0:
                return self.atom('recip', q_pow(a, -n))
            return self.pow_atom(a, n)
        if k == 'ite':
            x, y = self.enc(t[1][1]), self.enc(t[1][2])
            rel = t[1][0]
            c = {'lt': q_lt(x, y), 'le': q_lt(x, y, False), 'eq': q_eq(x, y)}[rel]
            p, q = self.enc(t[2]), self.enc(t[3])
            return _q_ite(c, p, q)
        if k == 'fn':
            f = t[1]
            args = [self.enc(x) for x in t[2:]]
            a = args[0]
            if f == 'abs':
                c = q_sign(a, '>=0')
                return Q(z3.If(c, a.n, -a.n), f=a.f)
            if f == 'signum':
                v = self.fresh('sgn')
                self.axioms += [z3.Implies(q_sign(a, '>0'), v == 1), z3.Implies(q_sign(a, '<0'), v == -1),
                                z3.Or(v == 1, v == -1)]
                return Q(v)
            if f in ('max', 'min'):
                b = args[1]
                c = q_lt(b, a, False) if f == 'max' else q_lt(a, b, False)
                return _q_ite(c, a, b)
            if f == 'powf':
                return self.pow_atom(args[0], args[1])
            return self.atom(f, *args)
        raise ValueError(t)

    def cond(self, rel, a, b, decision):
        """path condition in the real reading (sound over-approximation for sign tests at 0)"""
        x, y = self.enc(a), self.enc(b)
        if rel == 'lt':
            return q_lt(x, y) if decision else q_lt(y, x, False)
        if rel == 'le':
            return q_lt(x, y, False) if decision else q_lt(y, x)
        if rel == 'eq':
            return q_eq(x, y) if decision else z3.Not(q_eq(x, y))
        if rel == 'signpos':
            return q_sign(x, '>=0') if decision else q_sign(x, '<=0')
        if rel == 'signneg':
            return q_sign(x, '<=0') if decision else q_sign(x, '>=0')
        if rel in ('isnan', 'isinf'):
            return z3.BoolVal(not decision)
        raise ValueError(rel)


def _zpow(a, n):
    r = a
    for _ in range(n - 1):
        r = r * a
    return r if n > 0 else z3.RealVal(1)


# ---------------------------------------------------------------------------------------------
# EUF reading
# ---------------------------------------------------------------------------------------------
class EufEnc:
    """Every operation is an uninterpreted function over one uninterpreted sort; distinct literal
    constants are distinct. unsat(a != b) means: same operation sequence on the same inputs,
    hence bit-identical under IEEE-754 (or any other arithmetic)."""

    def __init__(self, suffix='', shared_vars=None):
        self.U = _U
        self.cache = {}
        self.suffix = suffix
        self.shared = shared_vars  # set of var names not renamed by suffix
        self.consts = {}
        self.axioms = []

    def f(self, name, arity):
        return z3.Function('uf_' + name, *([self.U] * (arity + 1)))

    def enc(self, t):
        r = self.cache.get(t)
        if r is not None:
            return r
        k = t[0]
        if k == 'var':
            n = t[1]
            if self.suffix and not (self.shared is not None and n in self.shared):
                n = n + self.suffix
            r = z3.Const(n, self.U)
        elif k == 'const':
            r = z3.Const(f'c_{t[1]}', self.U)
            _EUF_CONSTS.add(f'c_{t[1]}')
        elif k == 'named':
            r = z3.Const(f'k_{t[1]}', self.U)
        elif k in ('add', 'sub', 'mul', 'div'):
            r = self.f(k, 2)(self.enc(t[1]), self.enc(t[2]))
        elif k == 'neg':
            r = self.f('neg', 1)(self.enc(t[1]))
        elif k == 'muladd':
            r = self.f('muladd', 3)(self.enc(t[1]), self.enc(t[2]), self.enc(t[3]))
        elif k == 'powi':
            r = self.f(f'powi_{t[2]}'.replace('-', 'm'), 1)(self.enc(t[1]))
        elif k == 'fn':
            r = self.f(t[1], len(t) - 2)(*[self.enc(x) for x in t[2:]])
        else:
            raise ValueError(t)
        self.cache[t] = r
        return r


_U = z3.DeclareSort('U')
_EUF_CONSTS = set()


# ---------------------------------------------------------------------------------------------
# numeric evaluation (replay)
# ---------------------------------------------------------------------------------------------
_MPF = {
    'recip': lambda a: 1 / a, 'sqrt': mpmath.sqrt, 'cbrt': lambda a: mpmath.sign(a) * mpmath.root(abs(a), 3),
    'exp': mpmath.exp, 'exp2': lambda a: mpmath.power(2, a), 'exp_m1': mpmath.expm1, 'ln': mpmath.log,
    'log2': lambda a: mpmath.log(a, 2), 'log10': lambda a: mpmath.log(a, 10), 'ln_1p': mpmath.log1p,
    'ln1p': mpmath.log1p, 'expm1': mpmath.expm1,
    'sin': mpmath.sin, 'cos': mpmath.cos, 'tan': mpmath.tan, 'asin': mpmath.asin, 'acos': mpmath.acos,
    'atan': mpmath.atan, 'sinh': mpmath.sinh, 'cosh': mpmath.cosh, 'tanh': mpmath.tanh,
    'asinh': mpmath.asinh, 'acosh': mpmath.acosh, 'atanh': mpmath.atanh, 'abs': abs,
    'signum': lambda a: mpmath.sign(a) if a != 0 else mpmath.mpf(1),
    'powf': lambda a, b: mpmath.power(a, b), 'log': lambda a, b: mpmath.log(a, b),
    'atan2': lambda a, b: mpmath.atan2(a, b), 'max': max, 'min': min, 'hypot': mpmath.hypot,
}


def mp_eval(t, env, cache=None):
    """evaluate a term at 60 digits; env maps variable names to exact values (floats/Fractions)"""
    if cache is None:
        cache = {}
    r = cache.get(t)
    if r is not None:
        return r
    k = t[0]
    if k == 'var':
        v = env[t[1]]
        r = mpmath.mpf(v.numerator) / v.denominator if isinstance(v, Fraction) else mpmath.mpf(v)
    elif k == 'const':
        r = mpmath.mpf(t[1].numerator) / t[1].denominator
    elif k == 'named':
        if t[1] == 'EPSILON':
            r = env.get('#EPSILON', mpmath.mpf(2) ** -52)
        elif t[1] in NAMED_ENCLOSURE:
            r = NAMED_ENCLOSURE[t[1]]()
        else:
            raise Inconclusive('named ' + t[1])
    elif k == 'add':
        r = mp_eval(t[1], env, cache) + mp_eval(t[2], env, cache)
    elif k == 'sub':
        r = mp_eval(t[1], env, cache) - mp_eval(t[2], env, cache)
    elif k == 'mul':
        r = mp_eval(t[1], env, cache) * mp_eval(t[2], env, cache)
    elif k == 'div':
        r = mp_eval(t[1], env, cache) / mp_eval(t[2], env, cache)
    elif k == 'neg':
        r = -mp_eval(t[1], env, cache)
    elif k == 'muladd':
        r = mp_eval(t[1], env, cache) * mp_eval(t[2], env, cache) + mp_eval(t[3], env, cache)
    elif k == 'powi':
        r = mpmath.power(mp_eval(t[1], env, cache), t[2])
    elif k == 'ite':
        x, y = mp_eval(t[1][1], env, cache), mp_eval(t[1][2], env, cache)
        c = {'lt': x < y, 'le': x <= y, 'eq': x == y}[t[1][0]]
        r = mp_eval(t[2] if c else t[3], env, cache)
    elif k == 'fn':
        args = [mp_eval(x, env, cache) for x in t[2:]]
        r = _MPF[t[1]](*args)
        if isinstance(r, mpmath.mpc):
            raise Inconclusive('complex value in replay')
    else:
        raise ValueError(t)
    cache[t] = r
    return r
