"""Oracle side: the truncated Taylor (jet) algebra of every dual number type, independent of the
crate's formulas.

Every leaf part of every (nested) type is a mixed directional derivative along a finite set of
labelled directions; for a block B of labels the type stores x_B in a definite leaf. The result
of composing an n-ary function g with operands x^(1..n) is given by the multivariate Faa di Bruno
formula in set-partition form

    y_L = sum over set partitions pi of L, sum over assignments c: pi -> {1..n} of
          (d^|pi| g / d x_c(B1) ... d x_c(Bk))(re) * prod_B x^(c(B))_B

with the partial derivatives of g taken from sympy. This one formula covers first-, second-, third-
order, mixed, vector and nested types; nothing about a particular closed form is assumed.
"""
import itertools
from functools import lru_cache
import sympy as sp
from . import ir


# ----- level definitions: parts = list of (name, k, blocks) with blocks: frozenset(labels) -> part idx
def _level_parts(level):
    """parts = list of (name, k, blocks, dirs): blocks maps a subset of the part's k labels to the
    part that stores that block; dirs[i] is the direction (generator) id of label i"""
    f = level.split(':')
    kind = f[0]
    E = frozenset()

    def fs(*a):
        return frozenset(a)

    if kind == 'Dual':
        return [('re', 0, {E: 0}, ()), ('eps', 1, {E: 0, fs(0): 1}, ('e',))]
    if kind == 'Dual2':
        return [('re', 0, {E: 0}, ()), ('v1', 1, {E: 0, fs(0): 1}, ('e',)),
                ('v2', 2, {E: 0, fs(0): 1, fs(1): 1, fs(0, 1): 2}, ('e', 'e'))]
    if kind == 'Dual3':
        b3 = {E: 0}
        for s in range(1, 4):
            for c in itertools.combinations(range(3), s):
                b3[frozenset(c)] = s
        return [('re', 0, {E: 0}, ()), ('v1', 1, {E: 0, fs(0): 1}, ('e',)),
                ('v2', 2, {E: 0, fs(0): 1, fs(1): 1, fs(0, 1): 2}, ('e', 'e')), ('v3', 3, b3, ('e', 'e', 'e'))]
    if kind == 'HyperDual':
        return [('re', 0, {E: 0}, ()), ('eps1', 1, {E: 0, fs(0): 1}, ('e1',)), ('eps2', 1, {E: 0, fs(0): 2}, ('e2',)),
                ('eps1eps2', 2, {E: 0, fs(0): 1, fs(1): 2, fs(0, 1): 3}, ('e1', 'e2'))]
    if kind == 'HyperHyperDual':
        names = ['re', 'eps1', 'eps2', 'eps3', 'eps1eps2', 'eps1eps3', 'eps2eps3', 'eps1eps2eps3']
        dirs = [(), (1,), (2,), (3,), (1, 2), (1, 3), (2, 3), (1, 2, 3)]
        idx = {frozenset(d): i for i, d in enumerate(dirs)}
        parts = []
        for nm, d in zip(names, dirs):
            blocks = {}
            for s in range(0, len(d) + 1):
                for c in itertools.combinations(range(len(d)), s):
                    blocks[frozenset(c)] = idx[frozenset(d[i] for i in c)]
            parts.append((nm, len(d), blocks, tuple(f'e{q}' for q in d)))
        return parts
    if kind == 'DualVec':
        n = int(f[1])
        parts = [('re', 0, {E: 0}, ())]
        for i in range(n):
            parts.append((f'eps[{i}]', 1, {E: 0, fs(0): 1 + i}, (f'e[{i}]',)))
        return parts
    if kind == 'Dual2Vec':
        n = int(f[1])
        parts = [('re', 0, {E: 0}, ())]
        for i in range(n):
            parts.append((f'v1[{i}]', 1, {E: 0, fs(0): 1 + i}, (f'e[{i}]',)))
        # storage order of the n x n matrix is column-major: (i,j) for j outer, i inner
        for j in range(n):
            for i in range(n):
                me = 1 + n + j * n + i
                parts.append((f'v2[{i},{j}]', 2, {E: 0, fs(0): 1 + i, fs(1): 1 + j, fs(0, 1): me},
                              (f'e[{i}]', f'e[{j}]')))
        return parts
    if kind == 'HyperDualVec':
        m, n = [int(x) for x in f[1].split('x')]
        parts = [('re', 0, {E: 0}, ())]
        for i in range(m):
            parts.append((f'eps1[{i}]', 1, {E: 0, fs(0): 1 + i}, (f'e1[{i}]',)))
        for j in range(n):
            parts.append((f'eps2[{j}]', 1, {E: 0, fs(0): 1 + m + j}, (f'e2[{j}]',)))
        for j in range(n):
            for i in range(m):
                me = 1 + m + n + j * m + i
                parts.append((f'eps1eps2[{i},{j}]', 2,
                              {E: 0, fs(0): 1 + i, fs(1): 1 + m + j, fs(0, 1): me}, (f'e1[{i}]', f'e2[{j}]')))
        return parts
    raise ValueError(level)


class Leaf:
    __slots__ = ('path', 'k', 'blocks', 'dirs')

    def __init__(self, path, k, blocks, dirs=()):
        self.path, self.k, self.blocks, self.dirs = path, k, blocks, dirs


@lru_cache(maxsize=None)
def leaves_of(levels):
    """levels: tuple of level strings, outermost first -> list[Leaf] (outer-major order)"""
    if not levels:
        return [Leaf('', 0, {frozenset(): 0})]
    outer = _level_parts(levels[0])
    inner = leaves_of(levels[1:])
    ni = len(inner)
    depth = len(levels)
    out = []
    for (pname, ko, bo, do) in outer:
        for li, lf in enumerate(inner):
            blocks = {}
            for so, po in bo.items():
                for si, pi in lf.blocks.items():
                    blocks[so | frozenset(x + ko for x in si)] = po * ni + pi
            path = pname if not lf.path else f'{pname}.{lf.path}'
            out.append(Leaf(path, ko + lf.k, blocks, tuple(f'L{depth}:{d}' for d in do) + lf.dirs))
    return out


def set_partitions(items):
    items = list(items)
    if not items:
        yield []
        return
    first, rest = items[0], items[1:]
    for p in set_partitions(rest):
        for i in range(len(p)):
            yield p[:i] + [[first] + p[i]] + p[i + 1:]
        yield [[first]] + p


def compose(levels, args, deriv):
    """Faa di Bruno. args: list (one per operand) of leaf term lists (None = absent = 0).
    deriv(alpha) -> IR term of the partial derivative with multi-index alpha (tuple, len(args))
    evaluated at the operands' real parts. Returns the list of oracle leaf terms."""
    leaves = leaves_of(tuple(levels))
    n = len(args)
    out = []
    for lf in leaves:
        total = ir.ZERO
        labels = list(range(lf.k))
        for pi in set_partitions(labels):
            for c in itertools.product(range(n), repeat=len(pi)):
                prod = ir.ONE
                for blk, a in zip(pi, c):
                    t = args[a][lf.blocks[frozenset(blk)]]
                    prod = ir.mul(prod, t if t is not None else ir.ZERO)
                    if prod is ir.ZERO:
                        break
                if prod is ir.ZERO:
                    continue
                alpha = tuple(sum(1 for a in c if a == i) for i in range(n))
                d = deriv(alpha)
                total = ir.add(total, ir.mul(d, prod))
        out.append(total)
    return out


def max_order(levels):
    return max(lf.k for lf in leaves_of(tuple(levels)))


# ----- sympy derivative tables -------------------------------------------------------------
_x, _y, _n, _b = sp.symbols('x y n b', real=True)

SYMPY_FUNCS = {
    # name: (expr, symbols of the dual operands, extra scalar symbols)
    'recip': (1 / _x, (_x,)),
    'inv': (1 / _x, (_x,)),
    'sqrt': (sp.sqrt(_x), (_x,)),
    'cbrt': (_x ** sp.Rational(1, 3), (_x,)),
    'exp': (sp.exp(_x), (_x,)),
    'exp2': (2 ** _x, (_x,)),
    'exp_m1': (sp.exp(_x) - 1, (_x,)),
    'ln': (sp.log(_x), (_x,)),
    'log2': (sp.log(_x) / sp.log(2), (_x,)),
    'log10': (sp.log(_x) / sp.log(10), (_x,)),
    'ln_1p': (sp.log(1 + _x), (_x,)),
    'log': (sp.log(_x) / sp.log(_b), (_x,)),
    'sin': (sp.sin(_x), (_x,)),
    'cos': (sp.cos(_x), (_x,)),
    'tan': (sp.tan(_x), (_x,)),
    'asin': (sp.asin(_x), (_x,)),
    'acos': (sp.acos(_x), (_x,)),
    'atan': (sp.atan(_x), (_x,)),
    'sinh': (sp.sinh(_x), (_x,)),
    'cosh': (sp.cosh(_x), (_x,)),
    'tanh': (sp.tanh(_x), (_x,)),
    'asinh': (sp.asinh(_x), (_x,)),
    'acosh': (sp.acosh(_x), (_x,)),
    'atanh': (sp.atanh(_x), (_x,)),
    'sph_j0': (sp.sin(_x) / _x, (_x,)),
    'sph_j1': ((sp.sin(_x) - _x * sp.cos(_x)) / _x ** 2, (_x,)),
    'sph_j2': (((3 - _x ** 2) * sp.sin(_x) - 3 * _x * sp.cos(_x)) / _x ** 3, (_x,)),
    'neg': (-_x, (_x,)),
    'powf': (_x ** _n, (_x,)),
    'add': (_x + _y, (_x, _y)),
    'sub': (_x - _y, (_x, _y)),
    'mul': (_x * _y, (_x, _y)),
    'div': (_x / _y, (_x, _y)),
    'atan2': (sp.atan2(_x, _y), (_x, _y)),
    'powd': (sp.exp(_y * sp.log(_x)), (_x, _y)),
}

_DCACHE = {}


def sym_deriv(expr, syms, alpha):
    key = (expr, syms, alpha)
    r = _DCACHE.get(key)
    if r is None:
        r = expr
        for s, k in zip(syms, alpha):
            if k:
                r = sp.diff(r, s, k)
        # keep the form produced by diff (simplify can introduce piecewise / odd forms); only
        # cancel common rational factors
        r = sp.together(r) if r.is_rational_function(*syms) else r
        _DCACHE[key] = r
    return r


def sympy_to_ir(e, env):
    """env: sympy Symbol -> IR term"""
    if e.is_Symbol:
        return env[e]
    if e.is_Integer:
        return ir.const(int(e))
    if e.is_Rational:
        return ir.T('const', ir.Fraction(int(e.p), int(e.q)))
    if e.is_Add:
        args = [sympy_to_ir(a, env) for a in e.args]
        r = args[0]
        for a in args[1:]:
            r = ir.add(r, a)
        return r
    if e.is_Mul:
        num, den = ir.ONE, None
        for a in e.args:
            if a.is_Pow and a.exp.is_Integer and a.exp.is_negative and abs(int(a.exp)) > 48:
                num = ir.mul(num, ir.powi(sympy_to_ir(a.base, env), int(a.exp)))
            elif a.is_Pow and a.exp.is_Rational and a.exp.is_negative:
                t = sympy_to_ir(sp.Pow(a.base, -a.exp), env)
                den = t if den is None else ir.mul(den, t)
            else:
                num = ir.mul(num, sympy_to_ir(a, env))
        return num if den is None else ir.div(num, den)
    if e.is_Pow:
        b, ex = e.base, e.exp
        if ex.is_Integer:
            n = int(ex)
            bt = sympy_to_ir(b, env)
            if n >= 0 or n < -48:
                return ir.powi(bt, n)
            return ir.div(ir.ONE, ir.powi(bt, -n))
        if ex.is_Rational:
            p, q = int(ex.p), int(ex.q)
            bt = sympy_to_ir(b, env)
            if q == 2:
                root = ir.fn('sqrt', bt)
            elif q == 3:
                root = ir.fn('cbrt', bt)
            else:
                raise ir.Inconclusive(f'rational power {ex}')
            if p >= 0:
                return ir.powi(root, p)
            return ir.div(ir.ONE, ir.powi(root, -p))
        if b == 2:
            return ir.fn('exp2', sympy_to_ir(ex, env))
        if b == sp.E:
            return ir.fn('exp', sympy_to_ir(ex, env))
        return ir.fn('powf', sympy_to_ir(b, env), sympy_to_ir(ex, env))
    if isinstance(e, sp.exp):
        return ir.fn('exp', sympy_to_ir(e.args[0], env))
    fmap = {sp.log: 'ln', sp.sin: 'sin', sp.cos: 'cos', sp.tan: 'tan', sp.asin: 'asin', sp.acos: 'acos',
            sp.atan: 'atan', sp.sinh: 'sinh', sp.cosh: 'cosh', sp.tanh: 'tanh', sp.asinh: 'asinh',
            sp.acosh: 'acosh', sp.atanh: 'atanh', sp.Abs: 'abs', sp.atan2: 'atan2'}
    for cls, nm in fmap.items():
        if isinstance(e, cls):
            return ir.fn(nm, *[sympy_to_ir(a, env) for a in e.args])
    if e == sp.E:
        return ir.fn('exp', ir.ONE)
    raise ir.Inconclusive(f'cannot translate sympy node {e!r} ({type(e)})')


def func_deriv(fname, re_terms, scalars=None):
    """returns deriv(alpha) for `compose`: partial derivatives of the named function at re_terms"""
    expr, syms = SYMPY_FUNCS[fname]
    env = dict(zip(syms, re_terms))
    if scalars:
        env.update(scalars)
    cache = {}

    def deriv(alpha):
        if alpha not in cache:
            cache[alpha] = sympy_to_ir(sym_deriv(expr, syms, alpha), env)
        return cache[alpha]

    return deriv


def powi_deriv(n, re_term):
    expr = _x ** n
    cache = {}

    def deriv(alpha):
        if alpha not in cache:
            cache[alpha] = sympy_to_ir(sym_deriv(expr, (_x,), alpha), {_x: re_term})
        return cache[alpha]

    return deriv


def abs_deriv(re_term):
    def deriv(alpha):
        k = alpha[0]
        if k == 0:
            return ir.fn('abs', re_term)
        if k == 1:
            return ir.T('ite', ('lt', ir.ZERO, re_term), ir.ONE, ir.const(-1))
        return ir.ZERO

    return deriv


def signum_deriv(re_term):
    def deriv(alpha):
        if alpha[0] == 0:
            return ir.T('ite', ('lt', ir.ZERO, re_term), ir.ONE, ir.const(-1))
        return ir.ZERO

    return deriv


def self_check():
    """cross-check of the Taylor algebra against sympy on univariate compositions"""
    t = sp.Symbol('t')
    # Dual3 leaf v3 of sin(x(t)): x(t) = r + a t + b t^2/2 + c t^3/6
    r, a, b, c = sp.symbols('r a b c')
    xt = r + a * t + b * t ** 2 / 2 + c * t ** 3 / 6
    want = [sp.diff(sp.sin(xt), t, k).subs(t, 0) for k in range(4)]
    envv = {'r': r, 'a': a, 'b': b, 'c': c}
    args = [[ir.var('r'), ir.var('a'), ir.var('b'), ir.var('c')]]
    got = compose(['Dual3'], args, func_deriv('sin', [ir.var('r')]))
    for k in range(4):
        g = ir_to_sympy(got[k], envv)
        assert sp.simplify(g - want[k]) == 0, (k, g, want[k])
    # HyperDual mixed part of x*y
    return True


def ir_to_sympy(t, env):
    k = t[0]
    if k == 'var':
        return env[t[1]]
    if k == 'const':
        return sp.Rational(t[1].numerator, t[1].denominator)
    if k in ('add', 'sub', 'mul', 'div'):
        a, b = ir_to_sympy(t[1], env), ir_to_sympy(t[2], env)
        return {'add': a + b, 'sub': a - b, 'mul': a * b, 'div': a / b}[k]
    if k == 'neg':
        return -ir_to_sympy(t[1], env)
    if k == 'powi':
        return ir_to_sympy(t[1], env) ** t[2]
    if k == 'fn':
        f = {'sin': sp.sin, 'cos': sp.cos, 'exp': sp.exp, 'ln': sp.log, 'sqrt': sp.sqrt}[t[1]]
        return f(*[ir_to_sympy(x, env) for x in t[2:]])
    raise ValueError(t)
