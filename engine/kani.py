"""Engine E2: Kani harness runner (placeholder until the harness crate is registered)."""


def run_group(run, group):
    from . import kani_run
    kani_run.run_group(run, group)
