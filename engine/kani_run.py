def run_group(run, group):
    run.notes.append(f'E2 harnesses for {group}: not built yet')
