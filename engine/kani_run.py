"""Engine E2 runner: Kani proof harnesses on the real f32/f64 instantiations.

One `cargo kani` invocation per property group (harness name prefix), harnesses verified in
parallel; failures are re-run with concrete playback and the concrete values are replayed
against a native build of the same harness body (real libm, dev and release profile)."""
import glob
import os
import re
import subprocess
import time

from .core import VERIF, REPO

KANI_DIR = os.path.join(VERIF, 'kani')
TARGET = os.path.join(KANI_DIR, 'target', 'kani')
NATIVE_TARGET = os.path.join(KANI_DIR, 'target', 'native')

PREFIX = {'C02': 'c02_', 'C06': 'c06_', 'C07': 'c07_', 'C09': 'c09_', 'C10': 'c10_', 'C11': 'c11_',
          'C13': 'c13_', 'C16': 'c16_', 'C18': 'c18_', 'C05': 'c05_'}

IGNORED_CHECK = re.compile(r'^(NaN on |arithmetic overflow on floating-point)')


def harness_list(prefix, tier):
    out = []
    for f in sorted(glob.glob(os.path.join(KANI_DIR, 'src', '*.rs'))):
        mod = os.path.basename(f)[:-3]
        src = open(f).read()
        names = [m.group(1) for m in re.finditer(r'pub fn (' + prefix + r'\w+)\(\)', src)]
        names += [m.group(1) for m in re.finditer(r'_harness!\((' + prefix + r'\w+),', src)]
        for n in names:
            if n.endswith('_slow') and tier != 'thorough':
                continue
            if '_witness_must_fail' in n:
                out.append((mod, n, True))
            else:
                out.append((mod, n, False))
    return out


def _env():
    env = dict(os.environ, CARGO_NET_OFFLINE='true')
    env.pop('RUSTUP_TOOLCHAIN', None)
    return env


def _sync_lock():
    src = os.path.join(REPO, 'Cargo.lock')
    dst = os.path.join(KANI_DIR, 'Cargo.lock')
    if not os.path.exists(dst) and os.path.exists(src):
        import shutil
        shutil.copy(src, dst)


def parse_terse(text):
    """returns {harness: {'status':..., 'failed': [...], 'time': float}}"""
    res = {}
    cur = {}     # thread -> harness
    last_thread = None
    cur_single = None
    for line in text.splitlines():
        m = re.match(r'(?:Thread (\d+): )?Checking harness ([\w:]+)\.\.\.', line)
        if m:
            th = m.group(1) or 'x'
            cur[th] = m.group(2)
            res[m.group(2)] = {'status': 'UNKNOWN', 'failed': [], 'time': None, 'cover': None}
            cur_single = m.group(2)
            continue
        m = re.match(r'Thread (\d+):\s*$', line)
        if m:
            last_thread = m.group(1)
            continue
        h = cur.get(last_thread) if last_thread is not None else cur_single
        if h is None:
            continue
        m = re.match(r'Failed Checks: (.*)', line)
        if m:
            res[h]['failed'].append(m.group(1).strip())
            continue
        m = re.match(r'\s*\*\* (\d+) of (\d+) cover properties satisfied', line)
        if m:
            res[h]['cover'] = (int(m.group(1)), int(m.group(2)))
            continue
        m = re.match(r'VERIFICATION:- (\w+)', line)
        if m:
            res[h]['status'] = m.group(1)
            continue
        m = re.match(r'Verification Time: ([\d.]+)s', line)
        if m:
            res[h]['time'] = float(m.group(1))
            continue
        if 'out of memory' in line.lower() or 'Status: ERROR' in line:
            res[h]['status'] = 'ERROR'
        if 'CBMC timed out' in line:
            # the message follows the verdict line of the harness that was cut off
            res[h]['status'] = 'TIMEOUT'
    return res


def run_kani(names, jobs, timeout_s, extra=(), harness_timeout=300):
    _sync_lock()
    cmd = ['cargo', 'kani', '--target-dir', TARGET, '-Z', 'stubbing', '--output-format', 'terse', '--exact',
           '-Z', 'unstable-options', '--harness-timeout', str(harness_timeout)]
    if jobs > 1:
        cmd += ['-j', str(jobs)]
    for (mod, n) in names:
        cmd += ['--harness', f'{mod}::{n}']
    cmd += list(extra)
    t0 = time.time()
    try:
        p = subprocess.run(cmd, cwd=KANI_DIR, env=_env(), stdout=subprocess.PIPE, stderr=subprocess.STDOUT,
                           text=True, timeout=timeout_s)
        out = p.stdout
        timed_out = False
    except subprocess.TimeoutExpired as e:
        out = (e.stdout or b'').decode() if isinstance(e.stdout, bytes) else (e.stdout or '')
        timed_out = True
        subprocess.run(['pkill', '-f', 'cbmc.*' + re.escape(TARGET)], check=False)
    return out, time.time() - t0, timed_out


def playback_values(mod, name, timeout_s=900):
    cmd = ['cargo', 'kani', '--target-dir', TARGET, '-Z', 'stubbing', '--exact', '--harness', f'{mod}::{name}',
           '-Z', 'concrete-playback', '--concrete-playback=print']
    try:
        p = subprocess.run(cmd, cwd=KANI_DIR, env=_env(), stdout=subprocess.PIPE, stderr=subprocess.STDOUT,
                           text=True, timeout=timeout_s)
    except subprocess.TimeoutExpired:
        return None, 'playback timed out'
    blocks = re.findall(r'Check for `(\w+)`: "([^"]*)".*?let concrete_vals: Vec<Vec<u8>> = vec!\[(.*?)\n\s*\];',
                        p.stdout, flags=re.S)
    for kind, desc, body in blocks:
        if kind == 'cover' or IGNORED_CHECK.match(desc):
            continue
        vals = re.findall(r'vec!\[([\d, ]*)\]', body)
        return [[int(x) for x in v.split(',') if x.strip()] for v in vals], desc
    return None, 'no playback block for a failed assertion'


_native_built = {}


def native_replay(name, vals, release):
    key = 'release' if release else 'dev'
    if key not in _native_built:
        cmd = ['cargo', 'build', '--offline', '--bin', 'replay', '--target-dir', NATIVE_TARGET]
        if release:
            cmd.append('--release')
        p = subprocess.run(cmd, cwd=KANI_DIR, env=_env(), stdout=subprocess.PIPE, stderr=subprocess.STDOUT, text=True)
        _native_built[key] = p.returncode == 0
        if p.returncode != 0:
            return 'build failed: ' + p.stdout[-400:]
    exe = os.path.join(NATIVE_TARGET, 'release' if release else 'debug', 'replay')
    args = [exe, name] + [''.join(f'{b:02x}' for b in v) if v else '00' for v in vals]
    p = subprocess.run(args, stdout=subprocess.PIPE, stderr=subprocess.PIPE, text=True, timeout=120)
    m = re.search(r'REPLAY (.*)', p.stdout)
    return m.group(1) if m else 'crashed: ' + (p.stderr[-300:] or p.stdout[-300:])


def run_group(run, group, jobs=None):
    prefix = PREFIX[group]
    hs = harness_list(prefix, run.tier)
    if not hs:
        run.notes.append(f'no Kani harness registered for {group}')
        return
    jobs = jobs or int(os.environ.get('VERIF_KANI_JOBS', '8'))
    timeout_s = 1500 if run.tier == 'quick' else 4 * 3600
    out, wall, timed_out = run_kani([(m, n) for (m, n, _w) in hs], jobs, timeout_s,
                                    harness_timeout=240 if run.tier == 'quick' else 2400)
    res = parse_terse(out)
    if 'error: could not compile' in out or 'Failed to execute cargo' in out or 'error[E' in out:
        run.inconclusive.append({'engine': 'kani', 'reason': 'harness crate does not compile against /repo',
                                 'output': out[-1500:]})
        return
    run.solver_time += wall
    for (mod, n, witness) in hs:
        full = f'{mod}::{n}'
        r = res.get(full)
        run.obligations += 1
        run.queries += 1
        run.functions.add('kani:' + n)
        entry = {'harness': full, 'status': r['status'] if r else 'MISSING', 'time_s': r['time'] if r else None}
        if r is None or r['status'] in ('UNKNOWN', 'ERROR', 'TIMEOUT') or \
                (r['status'] == 'FAILED' and not r['failed']):
            entry['note'] = 'no verdict (timeout / out of memory)' if (timed_out or r) else 'harness did not run'
            run.kani.append(entry)
            run.inconclusive.append({'engine': 'kani', 'harness': full, 'reason': entry['note']})
            continue
        real_fail = [c for c in r['failed'] if not IGNORED_CHECK.match(c)]
        entry['failed_checks'] = real_fail
        entry['cover'] = r['cover']
        if witness:
            # vacuity guard: a twin with a deliberately false final assertion must fail
            if real_fail:
                run.discharged += 1
                run.vacuity_witnesses += 1
                entry['status'] = 'WITNESS-FAILED-AS-REQUIRED'
            else:
                run.inconclusive.append({'engine': 'kani', 'harness': full,
                                         'reason': 'reachability witness did not fail: harness group may be vacuous'})
            run.kani.append(entry)
            continue
        if not real_fail and r['status'] in ('SUCCESSFUL', 'FAILED'):
            # FAILED with only ignored generic float checks counts as success of the harness's claims
            if r['cover'] and r['cover'][0] == 0 and r['cover'][1] > 0:
                run.inconclusive.append({'engine': 'kani', 'harness': full,
                                         'reason': 'no cover property satisfied: assumptions may be vacuous'})
            else:
                run.discharged += 1
                run.case_keys.add('kani:' + full)
            run.kani.append(entry)
            continue
        # genuine failed check: concrete playback, native replay (dev + release)
        vals, desc = playback_values(mod, n)
        role = f'{group}:{n}'
        detail = {'engine': 'kani', 'harness': full, 'failed_checks': real_fail[:4], 'role': role}
        if vals is None:
            detail['reason'] = 'failed in CBMC but no concrete playback available: ' + str(desc)
            # unwinding assertions, overflow and memory-safety checks are reported without playback
            run.inconclusive.append(detail)
            run.kani.append(entry)
            continue
        detail['concrete_values'] = vals
        rd = native_replay(n, vals, release=False)
        rr = native_replay(n, vals, release=True)
        detail['native_dev'] = rd
        detail['native_release'] = rr
        if rd.startswith('failed') or rr.startswith('failed'):
            run.violations.append(detail)
        else:
            detail['reason'] = 'CBMC counterexample did not reproduce natively (stub artefact or model mismatch)'
            run.inconclusive.append(detail)
        run.kani.append(entry)
    if len(run.samples) < 6:
        run.sample({'engine': 'kani', 'group': group, 'harnesses': [n for (_m, n, _w) in hs][:12],
                    'wall_s': round(wall, 1)})
