import os
import sys

from . import core, props

LEVEL_TEXT = {}


def main():
    if len(sys.argv) < 3:
        print('usage: check <ID> quick|thorough')
        sys.exit(2)
    prop, tier = sys.argv[1], sys.argv[2]
    tier = os.environ.get('VERIF_TIER', tier)
    seed = int(os.environ.get('VERIF_SEED', '0') or 0)
    run = core.Run(prop, tier, seed)
    fn = getattr(props, prop.lower(), None)
    if fn is None:
        print(f'no check for {prop}')
        sys.exit(2)
    fn(run)
    level = 'proof'
    try:
        import json
        man = json.load(open(os.path.join(core.VERIF, 'MANIFEST.json')))
        for c in man['checks']:
            if c['property_id'] == prop:
                level = c['level_claimed']['category']
    except Exception:
        pass
    code = core.finish(
        run, level,
        explanation=props.EXPLAIN.get(prop, ''),
        trusted_base=['rustc', 'z3 (nlsat / EUF)', 'sympy diff/series', 'symbolic scalar S (validated '
                      'bit-for-bit against the native f64 instantiation on every run)',
                      'Kani/CBMC/cadical for E2 harnesses'],
        checker_cmd=f'./check {prop} {tier}')
    sys.exit(code)


if __name__ == '__main__':
    main()
