"""Polynomial expansion of IR terms in the derivative-part variables.

Both sides of an obligation are polynomials in the operands' derivative parts whose coefficients
depend on the real parts only. Two such polynomials agree for all part values iff they agree
coefficient by coefficient, so each obligation is split into one small query per monomial: the
solver then works over the real-part variables and function atoms only. The split is a sound
and complete syntactic step (commutative-ring expansion); every coefficient identity is still
decided by the solver."""
from . import ir
from .ir import ZERO, ONE


class NotPoly(Exception):
    pass


MAX_TERMS = 4000


def expand(t, partvars, cache):
    r = cache.get(t)
    if r is not None:
        return r
    k = t[0]
    if k == 'var':
        r = {(t[1],): ONE} if t[1] in partvars else {(): t}
    elif k in ('const', 'named'):
        r = {(): t} if t is not ZERO else {}
    elif k in ('add', 'sub'):
        a, b = expand(t[1], partvars, cache), expand(t[2], partvars, cache)
        r = dict(a)
        for m, c in b.items():
            if m in r:
                v = ir.add(r[m], c) if k == 'add' else ir.sub(r[m], c)
            else:
                v = c if k == 'add' else ir.neg(c)
            r[m] = v
    elif k == 'neg':
        r = {m: ir.neg(c) for m, c in expand(t[1], partvars, cache).items()}
    elif k == 'mul':
        r = _mul(expand(t[1], partvars, cache), expand(t[2], partvars, cache))
    elif k == 'muladd':
        ab = _mul(expand(t[1], partvars, cache), expand(t[2], partvars, cache))
        r = dict(ab)
        for m, c in expand(t[3], partvars, cache).items():
            r[m] = ir.add(r[m], c) if m in r else c
    elif k == 'div':
        a, b = expand(t[1], partvars, cache), expand(t[2], partvars, cache)
        if not _partfree(b):
            raise NotPoly('division by a term that depends on derivative parts')
        den = b.get((), ZERO)
        r = {m: ir.T('div', c, den) for m, c in a.items()}
    elif k == 'powi':
        a = expand(t[1], partvars, cache)
        if _partfree(a):
            r = {(): t}
        elif 0 <= t[2] <= 4:
            r = {(): ONE}
            for _ in range(t[2]):
                r = _mul(r, a)
        else:
            raise NotPoly('power of a part-dependent term')
    elif k == 'fn':
        for x in t[2:]:
            if not _partfree(expand(x, partvars, cache)):
                raise NotPoly(f'function {t[1]} applied to a part-dependent term')
        r = {(): t}
    elif k == 'ite':
        cx, cy = expand(t[1][1], partvars, cache), expand(t[1][2], partvars, cache)
        if not (_partfree(cx) and _partfree(cy)):
            raise NotPoly('branch on a part-dependent term')
        a, b = expand(t[2], partvars, cache), expand(t[3], partvars, cache)
        r = {}
        for m in set(a) | set(b):
            r[m] = ir.T('ite', t[1], a.get(m, ZERO), b.get(m, ZERO))
    else:
        raise NotPoly(k)
    if len(r) > MAX_TERMS:
        raise NotPoly('too many monomials')
    cache[t] = r
    return r


def _partfree(p):
    return all(m == () for m in p)


def _mul(a, b):
    r = {}
    for m1, c1 in a.items():
        for m2, c2 in b.items():
            m = tuple(sorted(m1 + m2))
            c = ir.mul(c1, c2)
            if c is ZERO:
                continue
            r[m] = ir.add(r[m], c) if m in r else c
    if len(r) > MAX_TERMS:
        raise NotPoly('too many monomials')
    return r
