"""Per-property check drivers (engine E1 part)."""
import itertools
import random
from fractions import Fraction

import z3

from . import ir, jets, algebra
from .core import *
from .ir import ZERO, ONE, const

SC = ['Dual', 'Dual2', 'Dual3', 'HyperDual', 'HyperHyperDual']
VEC_QUICK = ['DualVec2', 'Dual2VecD2', 'HyperDualVec21']
VEC_ALL = ['DualVec1', 'DualVec2', 'DualVec3', 'DualVecD2', 'Dual2Vec1', 'Dual2Vec2', 'Dual2VecD2',
           'HyperDualVec11', 'HyperDualVec21', 'HyperDualVec12', 'HyperDualVec22', 'HyperDualVec23',
           'HyperDualVecD22']
NEST_QUICK = ['Dual2<Dual>']
NEST_ALL = ['Dual<Dual>', 'Dual2<Dual>', 'Dual<Dual2>', 'HyperDual<Dual>', 'Dual3<Dual>', 'Dual<Dual<Dual>>',
            'DualVec2<Dual>', 'Dual<DualVec2>', 'Dual2VecD2<Dual>']

NGROUPS = None


def ngroups(shape):
    global NGROUPS
    if NGROUPS is None:
        build_symtrace()
        import subprocess
        out = subprocess.run([BIN, 'shapes'], stdout=subprocess.PIPE, text=True).stdout
        NGROUPS = {l.split('\t')[0]: int(l.split('\t')[1]) for l in out.splitlines() if l.strip()}
    return NGROUPS[shape]


def presence_patterns(shape, noperands, tier, rng, cap=None):
    """presence bit patterns for all optional groups of all operands; exhaustive when small"""
    g = ngroups(shape) * noperands
    if g == 0:
        return [0]
    total = 1 << g
    cap = cap or (16 if tier == 'quick' else 256)
    if total <= cap:
        return list(range(total))
    pats = {total - 1, 0}
    # every single-absent and single-present pattern, then random fill
    for i in range(g):
        pats.add((total - 1) & ~(1 << i))
        pats.add(1 << i)
    pats = set(list(pats)[:cap])
    while len(pats) < cap:
        pats.add(rng.randrange(total))
    return sorted(pats)


def shapes_for(tier, which=('sc', 'vec', 'nest')):
    s = []
    if 'sc' in which:
        s += SC
    if 'vec' in which:
        s += VEC_QUICK if tier == 'quick' else VEC_ALL
    if 'nest' in which:
        s += NEST_QUICK if tier == 'quick' else NEST_ALL
    return s


def revars_of(res, terms):
    """names of the real-part variables (innermost real part of every operand, scalar arguments)"""
    rv = set()
    for (_n, leaves) in res['inputs']:
        t = terms[leaves[0]]
        if t[0] == 'var':
            rv.add(t[1])
    for (_n, v) in res['scalars']:
        t = terms[v]
        if t[0] == 'var':
            rv.add(t[1])
    return rv


def eps_path_assumptions(case, path, res, terms):
    """Stated bound: on a path taken because |e| < EPSILON, the obligation is stated for e = 0
    (the path's interval has width 2*eps; the perturbation inside it is a rounding-level fact)."""
    out = []
    for c in path['conds']:
        a, b = terms[c[1]], terms[c[2]]
        if c[0] == 'lt' and c[3] and b == ('named', 'EPSILON') and a[0] == 'fn' and a[1] == 'abs':
            out.append(('eq', a[2], ZERO))
    return out


def run_algebra(run, specs, role, tag, extra_assume=None, chunk=40):
    """trace specs and decide, on every path, implementation == Taylor-algebra oracle"""
    chunks = [specs[i:i + chunk] for i in range(0, len(specs), chunk)]
    parallel(run, lambda sub, ch: _run_algebra_chunk(sub, ch, role, tag, extra_assume), chunks)


def _run_algebra_chunk(run, specs, role, tag, extra_assume):
    cases = trace(specs, tag, run.seed)
    for case in cases:
        run.cases += 1
        run.instantiations.add(case['shape'] + '<S>')
        run.functions.add(case['kind'].replace('az:', ''))
        if not check_validation(run, case):
            continue
        terms = ir.dag_to_terms(case['dag'])
        for path in case['paths']:
            res = path['result']
            r = role(case) if callable(role) else role
            if 'panic' in res:
                # a panicking path must be infeasible on the function's domain; build the domain
                # from another path's inputs (same variable names)
                okp = next((p for p in case['paths'] if 'panic' not in p['result']), None)
                assume = []
                if okp is not None:
                    try:
                        _, assume = algebra.primary(case, okp['result'], terms)
                    except Exception:
                        assume = []
                pctx = PathCtx(run, case, path, terms, assume)
                run.paths += 1
                if decide_infeasible(run, case, pctx, 'panic path: ' + res['panic'][:80], r):
                    run.infeasible_paths += 1
                continue
            try:
                obs, assume = algebra.primary(case, res, terms)
                if extra_assume:
                    assume = assume + extra_assume(case, path, res, terms)
                pctx = PathCtx(run, case, path, terms, assume)
                decide_path(run, case, pctx, obs, r, revars=revars_of(res, terms))
            except ir.Inconclusive as e:
                run.inconclusive.append({'case': case_id(case), 'reason': str(e)})
        if len(run.samples) < 3 and case['paths']:
            p0 = case['paths'][0]
            if 'panic' not in p0['result'] and p0['result']['outputs']:
                on, ol = p0['result']['outputs'][0]
                last = ol[-1]
                run.sample({'case': case_id(case), 'paths': len(case['paths']),
                            'dag_nodes': len(case['dag']),
                            'path_conditions': [[c[0], str(terms[c[1]])[:80], str(terms[c[2]])[:40], c[3]]
                                                for c in p0['conds']][:4],
                            'obligation': f'{on}#{len(ol) - 1}: traced implementation term == set-partition '
                                          'Faa di Bruno composition of sympy derivatives, split per monomial '
                                          'of the derivative parts',
                            'implementation_term': (str(terms[last])[:300] if last is not None else 'absent')})


C01_FUNCS = ['recip', 'sqrt', 'cbrt', 'exp', 'exp2', 'exp_m1', 'ln', 'log2', 'log10', 'ln_1p', 'sin', 'cos',
             'tan', 'asin', 'acos', 'atan', 'sinh', 'cosh', 'tanh', 'asinh', 'acosh', 'atanh', 'abs', 'signum']


def c01(run):
    rng = random.Random(run.seed)
    specs = []
    for sh in shapes_for(run.tier):
        pats = presence_patterns(sh, 1, run.tier, rng, cap=4 if run.tier == 'quick' else 16)
        for f in C01_FUNCS:
            for p in pats:
                specs.append((sh, f'un:{f}', p))
        for p in pats:
            specs.append((sh, 'sincos', p))
            specs.append((sh, 'log', p))
        pats2 = presence_patterns(sh, 2, run.tier, rng, cap=4 if run.tier == 'quick' else 16)
        for p in pats2:
            specs.append((sh, 'atan2', p))
            specs.append((sh, 'abs_sub', p))
    run.bounds = {'vector dimensions': '<= 3', 'nesting depth': '<= 3', 'total derivative order': '<= 4',
                  'fork depth per path': 40,
                  'outside': 'rounding clause (u * sum|terms|) is not decided; f32/f64 share the one generic '
                             'body traced at S'}

    def role(case):
        k = case['kind']
        return 'C01:' + k.split(':')[-1] if k.startswith('un:') else 'C01:' + k
    run_algebra(run, specs, role, 'c01')


def c02(run):
    rng = random.Random(run.seed)
    specs = []
    for sh in shapes_for(run.tier):
        pats2 = presence_patterns(sh, 2, run.tier, rng, cap=16 if run.tier == 'quick' else 256)
        for op in ('add', 'sub', 'mul', 'div'):
            for p in pats2:
                specs.append((sh, f'bin:{op}', p))
        pats1 = presence_patterns(sh, 1, run.tier, rng)
        for p in pats1:
            specs.append((sh, 'un:neg', p))
            specs.append((sh, 'un:recip', p))
            for n in (2, 3, -1, -2):
                specs.append((sh, f'powi:{n}', p))
    run.bounds = {'vector dimensions': '<= 3', 'nesting depth': '<= 3',
                  'presence patterns': 'all 4^k for two operands when <= cap, else all single-absent/'
                                       'single-present patterns plus seeded random ones',
                  'outside': 'bit-exactness on dyadic grids is decided by the Kani harnesses (E2) for '
                             'Dual/Dual2/HyperDual only'}
    run_algebra(run, specs, lambda c: 'C02:' + c['kind'], 'c02')

EXPLAIN = {
    'C01': 'bounded solver-based check: the crate\'s generic code is executed over a symbolic scalar, every '
           'control-flow path enumerated; z3 decides per result part, for all real operand values in the '
           'function\'s domain, equality with the set-partition Faa di Bruno composition of sympy\'s derivatives',
    'C02': 'as C01 for + - * / neg recip powi on two independent operands, all presence patterns',
}


# ---------------------------------------------------------------------------------------------
# C15 spherical Bessel functions
# ---------------------------------------------------------------------------------------------
def _series_coeffs(fname, upto):
    import sympy as sp
    expr, syms = jets.SYMPY_FUNCS[fname]
    x = syms[0]
    ser = sp.series(expr, x, 0, upto + 1).removeO()
    poly = sp.Poly(ser, x)
    return [sp.Rational(poly.coeff_monomial(x ** k)) for k in range(upto + 1)]


def _c15_chunk(run, specs):
    import sympy as sp
    cases = trace(specs, 'c15', run.seed)
    EPS = ('named', 'EPSILON')
    for case in cases:
        run.cases += 1
        run.instantiations.add(case['shape'] + '<S>')
        f = case['kind'].split(':')[1]
        run.functions.add(f)
        if not check_validation(run, case):
            continue
        terms = ir.dag_to_terms(case['dag'])
        levels = case['levels']
        order = jets.max_order(levels) if levels else 0
        coeffs = _series_coeffs(f, order + 8)
        for path in case['paths']:
            res = path['result']
            if 'panic' in res:
                run.inconclusive.append({'case': case_id(case), 'reason': 'panic path ' + res['panic'][:60]})
                continue
            ins = {n: algebra.leaves_terms(terms, l) for (n, l) in res['inputs']}
            outs = {n: algebra.leaves_terms(terms, l) for (n, l) in res['outputs']}
            x = ins['x']
            xr = x[0]
            rv = revars_of(res, terms)
            # (A) |x| >= eps: exactly the closed form composed with the operand's parts
            obs, assume = algebra.primary(case, res, terms)
            assume = [a for a in assume] + [('or', ('ge', xr, EPS), ('le', xr, ir.neg(EPS)))]
            pctx = PathCtx(run, case, path, terms, assume)
            decide_path(run, case, pctx, obs, f'C15:{f}:closed-form-region', revars=rv)
            # (B') x == 0: every part equals the composition of the true derivatives at 0
            fact = 1
            d0 = []
            for k in range(order + 1):
                if k:
                    fact *= k
                q = coeffs[k] * fact
                d0.append(ir.T('const', Fraction(int(q.p), int(q.q))))
            oracle0 = jets.compose(levels, [x], lambda alpha: d0[alpha[0]]) if levels else [d0[0]]
            obs0 = [(f'y#{i}', a, b) for i, (a, b) in enumerate(zip(outs['y'], oracle0))]
            pctx = PathCtx(run, case, path, terms, [('eq', xr, ZERO)])
            decide_path(run, case, pctx, obs0, f'C15:{f}:at-zero', revars=rv)
            # (B'') 0 < |x| < eps: every coefficient within 2^-20 of the degree-(order+8) Taylor
            # polynomial of the true function (whose own truncation error there is < 2^-100)
            def dser(alpha, coeffs=coeffs):
                k = alpha[0]
                t = ZERO
                for j in range(len(coeffs) - 1, k - 1, -1):
                    c = coeffs[j]
                    for i in range(k):
                        c = c * (j - i)
                    t = ir.add(ir.mul(t, xr), ir.T('const', Fraction(int(c.p), int(c.q))))
                return t
            oracle_s = jets.compose(levels, [x], dser) if levels else [dser((0,))]
            obss = [(f'y#{i}', a, b) for i, (a, b) in enumerate(zip(outs['y'], oracle_s))]
            pctx = PathCtx(run, case, path, terms, [('lt', xr, EPS), ('gt', xr, ir.neg(EPS))])
            decide_path(run, case, pctx, obss, f'C15:{f}:series-region', revars=rv,
                        tol=Fraction(1, 2 ** 20), vacuity=False)
        if len(run.samples) < 3:
            run.sample({'case': case_id(case), 'paths': len(case['paths']),
                        'conditions': [[c[0], str(terms[c[1]])[:50], str(terms[c[2]])[:30], c[3]]
                                       for c in case['paths'][0]['conds']],
                        'obligations': ['|x|>=eps: parts == FaaDiBruno(closed form)',
                                        'x==0: parts == FaaDiBruno(sympy series coefficients * k!)',
                                        '|x|<eps: |coefficient - Taylor polynomial| <= 2^-20']})


def c15(run):
    rng = random.Random(run.seed)
    shapes = ['Real'] + SC + ['DualVec2', 'Dual2<Dual>']
    if run.tier == 'thorough':
        shapes += ['Dual2VecD2', 'HyperDualVec22', 'Dual<Dual>', 'Dual<Dual2>', 'HyperDual<Dual>', 'Dual3<Dual>',
                   'Dual<Dual<Dual>>', 'DualVec2<Dual>']
    specs = []
    for sh in shapes:
        for f in ('sph_j0', 'sph_j1', 'sph_j2'):
            for p in presence_patterns(sh, 1, run.tier, rng, cap=4):
                specs.append((sh, f'un:{f}', p))
    run.bounds = {'total derivative order': '<= 4 (series of the repository are exact at 0 up to order 4)',
                  'tolerance in the series region': '2^-20 absolute per coefficient, |x| < eps <= 2^-23',
                  'outside': 'rounding of the closed forms for tiny non-zero |x| >= eps (cancellation) is a '
                             'floating-point fact and is not decided'}
    chunks = [specs[i:i + 8] for i in range(0, len(specs), 8)]
    parallel(run, _c15_chunk, chunks)


EXPLAIN['C15'] = ('sph_j0/1/2 traced on every path for dual types and for the plain-float leaf (the repository\'s '
                  'own macro text expanded at S); z3 decides: closed form exact for |x| >= eps (so a series '
                  'path reachable there is a violation), exact Taylor data at x = 0, and a 2^-20 bound against '
                  'the high-order Taylor polynomial for 0 < |x| < eps')
