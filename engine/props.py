"""Per-property check drivers (engine E1 part)."""
import itertools
import random
from fractions import Fraction

import z3

from . import ir, jets, algebra
from .core import *
from .ir import ZERO, ONE, const

SC = ['Dual', 'Dual2', 'Dual3', 'HyperDual', 'HyperHyperDual']
VEC_QUICK = ['DualVec2', 'Dual2VecD2', 'HyperDualVec21']
VEC_ALL = ['DualVec1', 'DualVec2', 'DualVec3', 'DualVecD2', 'Dual2Vec1', 'Dual2Vec2', 'Dual2VecD2',
           'HyperDualVec11', 'HyperDualVec21', 'HyperDualVec12', 'HyperDualVec22', 'HyperDualVec23',
           'HyperDualVecD22']
NEST_QUICK = ['Dual2<Dual>']
NEST_ALL = ['Dual<Dual>', 'Dual2<Dual>', 'Dual<Dual2>', 'HyperDual<Dual>', 'Dual3<Dual>', 'Dual<Dual<Dual>>',
            'DualVec2<Dual>', 'Dual<DualVec2>', 'Dual2VecD2<Dual>']

NGROUPS = None


def ngroups(shape):
    global NGROUPS
    if NGROUPS is None:
        build_symtrace()
        import subprocess
        out = subprocess.run([BIN, 'shapes'], stdout=subprocess.PIPE, text=True).stdout
        NGROUPS = {l.split('\t')[0]: int(l.split('\t')[1]) for l in out.splitlines() if l.strip()}
    return NGROUPS[shape]


def presence_patterns(shape, noperands, tier, rng, cap=None):
    """presence bit patterns for all optional groups of all operands; exhaustive when small"""
    g = ngroups(shape) * noperands
    if g == 0:
        return [0]
    total = 1 << g
    cap = cap or (16 if tier == 'quick' else 256)
    if total <= cap:
        return list(range(total))
    pats = {total - 1, 0}
    # every single-absent and single-present pattern, then random fill
    for i in range(g):
        pats.add((total - 1) & ~(1 << i))
        pats.add(1 << i)
    pats = set(list(pats)[:cap])
    while len(pats) < cap:
        pats.add(rng.randrange(total))
    return sorted(pats)


def shapes_for(tier, which=('sc', 'vec', 'nest')):
    s = []
    if 'sc' in which:
        s += SC
    if 'vec' in which:
        s += VEC_QUICK if tier == 'quick' else VEC_ALL
    if 'nest' in which:
        s += NEST_QUICK if tier == 'quick' else NEST_ALL
    return s


def revars_of(res, terms):
    """names of the real-part variables (innermost real part of every operand, scalar arguments)"""
    rv = set()
    for (_n, leaves) in res['inputs']:
        t = terms[leaves[0]]
        if t[0] == 'var':
            rv.add(t[1])
    for (_n, v) in res['scalars']:
        t = terms[v]
        if t[0] == 'var':
            rv.add(t[1])
    return rv


def eps_path_assumptions(case, path, res, terms):
    """Stated bound: on a path taken because |e| < EPSILON, the obligation is stated for e = 0
    (the path's interval has width 2*eps; the perturbation inside it is a rounding-level fact)."""
    out = []
    for c in path['conds']:
        a, b = terms[c[1]], terms[c[2]]
        if c[0] == 'lt' and c[3] and b == ('named', 'EPSILON') and a[0] == 'fn' and a[1] == 'abs':
            out.append(('eq', a[2], ZERO))
    return out


def run_algebra(run, specs, role, tag, extra_assume=None, chunk=40):
    """trace specs and decide, on every path, implementation == Taylor-algebra oracle"""
    chunks = [specs[i:i + chunk] for i in range(0, len(specs), chunk)]
    parallel(run, lambda sub, ch: _run_algebra_chunk(sub, ch, role, tag, extra_assume), chunks)


def _run_algebra_chunk(run, specs, role, tag, extra_assume):
    cases = trace(specs, tag, run.seed)
    for case in cases:
        run.cases += 1
        run.instantiations.add(case['shape'] + '<S>')
        run.functions.add(case['kind'].replace('az:', ''))
        if not check_validation(run, case):
            continue
        terms = ir.dag_to_terms(case['dag'])
        for path in case['paths']:
            res = path['result']
            r = role(case) if callable(role) else role
            if 'panic' in res:
                # a panicking path must be infeasible on the function's domain; build the domain
                # from another path's inputs (same variable names)
                okp = next((p for p in case['paths'] if 'panic' not in p['result']), None)
                assume = []
                if okp is not None:
                    try:
                        _, assume = algebra.primary(case, okp['result'], terms)
                    except Exception:
                        assume = []
                pctx = PathCtx(run, case, path, terms, assume)
                run.paths += 1
                if decide_infeasible(run, case, pctx, 'panic path: ' + res['panic'][:80], r):
                    run.infeasible_paths += 1
                continue
            try:
                obs, assume = algebra.primary(case, res, terms)
                if extra_assume:
                    assume = assume + extra_assume(case, path, res, terms)
                pctx = PathCtx(run, case, path, terms, assume)
                decide_path(run, case, pctx, obs, r, revars=revars_of(res, terms))
            except ir.Inconclusive as e:
                run.inconclusive.append({'case': case_id(case), 'reason': str(e)})
        if len(run.samples) < 3 and case['paths']:
            p0 = case['paths'][0]
            if 'panic' not in p0['result'] and p0['result']['outputs']:
                on, ol = p0['result']['outputs'][0]
                last = ol[-1]
                run.sample({'case': case_id(case), 'paths': len(case['paths']),
                            'dag_nodes': len(case['dag']),
                            'path_conditions': [[c[0], str(terms[c[1]])[:80], str(terms[c[2]])[:40], c[3]]
                                                for c in p0['conds']][:4],
                            'obligation': f'{on}#{len(ol) - 1}: traced implementation term == set-partition '
                                          'Faa di Bruno composition of sympy derivatives, split per monomial '
                                          'of the derivative parts',
                            'implementation_term': (str(terms[last])[:300] if last is not None else 'absent')})


C01_FUNCS = ['recip', 'sqrt', 'cbrt', 'exp', 'exp2', 'exp_m1', 'ln', 'log2', 'log10', 'ln_1p', 'sin', 'cos',
             'tan', 'asin', 'acos', 'atan', 'sinh', 'cosh', 'tanh', 'asinh', 'acosh', 'atanh', 'abs', 'signum']


def c01(run):
    rng = random.Random(run.seed)
    specs = []
    for sh in shapes_for(run.tier):
        pats = presence_patterns(sh, 1, run.tier, rng, cap=4 if run.tier == 'quick' else 16)
        for f in C01_FUNCS:
            for p in pats:
                specs.append((sh, f'un:{f}', p))
        for p in pats:
            specs.append((sh, 'sincos', p))
            specs.append((sh, 'log', p))
        pats2 = presence_patterns(sh, 2, run.tier, rng, cap=4 if run.tier == 'quick' else 16)
        for p in pats2:
            specs.append((sh, 'atan2', p))
            specs.append((sh, 'abs_sub', p))
    run.bounds = {'vector dimensions': '<= 3', 'nesting depth': '<= 3', 'total derivative order': '<= 4',
                  'fork depth per path': 40,
                  'outside': 'rounding clause (u * sum|terms|) is not decided; f32/f64 share the one generic '
                             'body traced at S'}

    def role(case):
        k = case['kind']
        return 'C01:' + k.split(':')[-1] if k.startswith('un:') else 'C01:' + k
    run_algebra(run, specs, role, 'c01')


def c02(run):
    rng = random.Random(run.seed)
    specs = []
    for sh in shapes_for(run.tier):
        pats2 = presence_patterns(sh, 2, run.tier, rng, cap=16 if run.tier == 'quick' else 256)
        for op in ('add', 'sub', 'mul', 'div'):
            for p in pats2:
                specs.append((sh, f'bin:{op}', p))
        pats1 = presence_patterns(sh, 1, run.tier, rng)
        for p in pats1:
            specs.append((sh, 'un:neg', p))
            specs.append((sh, 'un:recip', p))
            for n in (2, 3, -1, -2):
                specs.append((sh, f'powi:{n}', p))
    run.bounds = {'vector dimensions': '<= 3', 'nesting depth': '<= 3',
                  'presence patterns': 'all 4^k for two operands when <= cap, else all single-absent/'
                                       'single-present patterns plus seeded random ones',
                  'outside': 'bit-exactness on dyadic grids is decided by the Kani harnesses (E2) for '
                             'Dual/Dual2/HyperDual only'}
    run_algebra(run, specs, lambda c: 'C02:' + c['kind'], 'c02')

EXPLAIN = {
    'C01': 'bounded solver-based check: the crate\'s generic code is executed over a symbolic scalar, every '
           'control-flow path enumerated; z3 decides per result part, for all real operand values in the '
           'function\'s domain, equality with the set-partition Faa di Bruno composition of sympy\'s derivatives',
    'C02': 'as C01 for + - * / neg recip powi on two independent operands, all presence patterns',
}


# ---------------------------------------------------------------------------------------------
# C15 spherical Bessel functions
# ---------------------------------------------------------------------------------------------
def _series_coeffs(fname, upto):
    import sympy as sp
    expr, syms = jets.SYMPY_FUNCS[fname]
    x = syms[0]
    ser = sp.series(expr, x, 0, upto + 1).removeO()
    poly = sp.Poly(ser, x)
    return [sp.Rational(poly.coeff_monomial(x ** k)) for k in range(upto + 1)]


def _c15_chunk(run, specs):
    import sympy as sp
    cases = trace(specs, 'c15', run.seed)
    EPS = ('named', 'EPSILON')
    for case in cases:
        run.cases += 1
        run.instantiations.add(case['shape'] + '<S>')
        f = case['kind'].split(':')[1]
        run.functions.add(f)
        if not check_validation(run, case):
            continue
        terms = ir.dag_to_terms(case['dag'])
        levels = case['levels']
        order = jets.max_order(levels) if levels else 0
        coeffs = _series_coeffs(f, order + 8)
        for path in case['paths']:
            res = path['result']
            if 'panic' in res:
                run.inconclusive.append({'case': case_id(case), 'reason': 'panic path ' + res['panic'][:60]})
                continue
            ins = {n: algebra.leaves_terms(terms, l) for (n, l) in res['inputs']}
            outs = {n: algebra.leaves_terms(terms, l) for (n, l) in res['outputs']}
            x = ins['x']
            xr = x[0]
            rv = revars_of(res, terms)
            # (A) |x| >= eps: exactly the closed form composed with the operand's parts
            obs, assume = algebra.primary(case, res, terms)
            assume = [a for a in assume] + [('or', ('ge', xr, EPS), ('le', xr, ir.neg(EPS)))]
            pctx = PathCtx(run, case, path, terms, assume)
            decide_path(run, case, pctx, obs, f'C15:{f}:closed-form-region', revars=rv)
            # (B') x == 0: every part equals the composition of the true derivatives at 0
            fact = 1
            d0 = []
            for k in range(order + 1):
                if k:
                    fact *= k
                q = coeffs[k] * fact
                d0.append(ir.T('const', Fraction(int(q.p), int(q.q))))
            oracle0 = jets.compose(levels, [x], lambda alpha: d0[alpha[0]]) if levels else [d0[0]]
            obs0 = [(f'y#{i}', a, b) for i, (a, b) in enumerate(zip(outs['y'], oracle0))]
            pctx = PathCtx(run, case, path, terms, [('eq', xr, ZERO)])
            decide_path(run, case, pctx, obs0, f'C15:{f}:at-zero', revars=rv)
            # (B'') 0 < |x| < eps: every coefficient within 2^-20 of the degree-(order+8) Taylor
            # polynomial of the true function (whose own truncation error there is < 2^-100)
            def dser(alpha, coeffs=coeffs):
                k = alpha[0]
                t = ZERO
                for j in range(len(coeffs) - 1, k - 1, -1):
                    c = coeffs[j]
                    for i in range(k):
                        c = c * (j - i)
                    t = ir.add(ir.mul(t, xr), ir.T('const', Fraction(int(c.p), int(c.q))))
                return t
            oracle_s = jets.compose(levels, [x], dser) if levels else [dser((0,))]
            obss = [(f'y#{i}', a, b) for i, (a, b) in enumerate(zip(outs['y'], oracle_s))]
            pctx = PathCtx(run, case, path, terms, [('lt', xr, EPS), ('gt', xr, ir.neg(EPS))])
            decide_path(run, case, pctx, obss, f'C15:{f}:series-region', revars=rv,
                        tol=Fraction(1, 2 ** 20), vacuity=False)
        if len(run.samples) < 3:
            run.sample({'case': case_id(case), 'paths': len(case['paths']),
                        'conditions': [[c[0], str(terms[c[1]])[:50], str(terms[c[2]])[:30], c[3]]
                                       for c in case['paths'][0]['conds']],
                        'obligations': ['|x|>=eps: parts == FaaDiBruno(closed form)',
                                        'x==0: parts == FaaDiBruno(sympy series coefficients * k!)',
                                        '|x|<eps: |coefficient - Taylor polynomial| <= 2^-20']})


def c15(run):
    rng = random.Random(run.seed)
    shapes = ['Real'] + SC + ['DualVec2', 'Dual2<Dual>']
    if run.tier == 'thorough':
        shapes += ['Dual2VecD2', 'HyperDualVec22', 'Dual<Dual>', 'Dual<Dual2>', 'HyperDual<Dual>', 'Dual3<Dual>',
                   'Dual<Dual<Dual>>', 'DualVec2<Dual>']
    specs = []
    for sh in shapes:
        for f in ('sph_j0', 'sph_j1', 'sph_j2'):
            for p in presence_patterns(sh, 1, run.tier, rng, cap=4):
                specs.append((sh, f'un:{f}', p))
    run.bounds = {'total derivative order': '<= 4 (series of the repository are exact at 0 up to order 4)',
                  'tolerance in the series region': '2^-20 absolute per coefficient, |x| < eps <= 2^-23',
                  'outside': 'rounding of the closed forms for tiny non-zero |x| >= eps (cancellation) is a '
                             'floating-point fact and is not decided'}
    chunks = [specs[i:i + 8] for i in range(0, len(specs), 8)]
    parallel(run, _c15_chunk, chunks)


EXPLAIN['C15'] = ('sph_j0/1/2 traced on every path for dual types and for the plain-float leaf (the repository\'s '
                  'own macro text expanded at S); z3 decides: closed form exact for |x| >= eps (so a series '
                  'path reachable there is a violation), exact Taylor data at x = 0, and a 2^-20 bound against '
                  'the high-order Taylor polynomial for 0 < |x| < eps')


# ---------------------------------------------------------------------------------------------
# C09 powers (E1 part: all bases, real and dual exponents, listed integer exponents)
# ---------------------------------------------------------------------------------------------
POWI_QUICK = [-(2 ** 30), -1000, -3, -2, -1, 0, 1, 2, 3, 4, 5, 7, 1000, 2 ** 30]
POWI_THOROUGH = sorted(set(POWI_QUICK + list(range(-8, 13)) + [46341, 46342, 1291, 1292, -1292, -46342, 65536,
                                                            2 ** 30 - 1, -(2 ** 30) + 1, 123456789]))


def c09_e1(run):
    rng = random.Random(run.seed)
    specs = []
    shapes = shapes_for(run.tier)
    for sh in shapes:
        pats = presence_patterns(sh, 1, run.tier, rng, cap=2 if run.tier == 'quick' else 8)
        for p in pats:
            for n in (POWI_QUICK if run.tier == 'quick' else POWI_THOROUGH):
                specs.append((sh, f'powi:{n}', p))
            specs.append((sh, 'powf', p))
            for v in ('0.5', '-1.5', '2.5', '0.3333333333333333', '3', '-2', '7.25'):
                specs.append((sh, f'powfc:{v}', p))
            specs.append((sh, 'un:recip', p))
            specs.append((sh, 'un:sqrt', p))
            specs.append((sh, 'un:cbrt', p))
        for p in presence_patterns(sh, 2, run.tier, rng, cap=2 if run.tier == 'quick' else 8):
            specs.append((sh, 'powd', p))

    def role(case):
        k = case['kind']
        if k.startswith('powi'):
            n = int(k.split(':')[1])
            return 'C09:powi:coefficient-overflow' if abs(n) >= 1292 else 'C09:powi'
        return 'C09:' + k.split(':')[0]
    run_algebra(run, specs, role, 'c09', extra_assume=eps_path_assumptions)
    run.notes.append('cross-agreement powi(n) = powf(n) = repeated multiplication = exp(n ln x), recip = '
                     'powi(-1), sqrt = powf(1/2), cbrt = powf(1/3): every one of them is decided equal to the '
                     'same oracle x^n (sympy derivatives) on the common domain, so they agree pairwise')
    run.notes.append('on a path selected by |n - c| < eps the obligation is stated for n = c (stated bound)')


# ---------------------------------------------------------------------------------------------
# "same" obligations: several outputs of one case must agree (C07, C08)
# ---------------------------------------------------------------------------------------------
def euf_identical(run, pairs):
    """number of pairs whose two terms are the same operation sequence on the same inputs
    (decided by z3 over uninterpreted functions with commutativity of add/mul)"""
    enc = ir.EufEnc()
    s = run.solver()
    U = ir._U
    x, y = z3.Consts('x y', U)
    for fn_name in ('add', 'mul'):
        f = enc.f(fn_name, 2)
        s.add(z3.ForAll([x, y], f(x, y) == f(y, x)))
    cnt = 0
    for (a, b) in pairs:
        if a is None and b is None:
            cnt += 1
            continue
        if a is None or b is None:
            continue
        ea, eb = enc.enc(a), enc.enc(b)
        if ea.eq(eb):
            cnt += 1
            continue
        s.push()
        s.add(ea != eb)
        if run.check(s) == z3.unsat:
            cnt += 1
        s.pop()
    return cnt


def _same_chunk(run, args):
    specs, groups_fn, role, tag, domain_fn = args
    cases = trace(specs, tag, run.seed)
    for case in cases:
        run.cases += 1
        run.instantiations.add(case['shape'] + '<S>')
        run.functions.add(case['kind'])
        if not check_validation(run, case):
            continue
        terms = ir.dag_to_terms(case['dag'])
        for path in case['paths']:
            res = path['result']
            if 'panic' in res:
                assume = []
                pctx = PathCtx(run, case, path, terms, assume)
                run.paths += 1
                if decide_infeasible(run, case, pctx, 'panic path: ' + res['panic'][:80], role(case)):
                    run.infeasible_paths += 1
                continue
            outs = {n: algebra.leaves_terms(terms, l) for (n, l) in res['outputs']}
            obs = []
            eufpairs = []
            for (ref, others, exact) in groups_fn(case, outs):
                for o in others:
                    for i, (a, b) in enumerate(zip(outs[o], outs[ref])):
                        obs.append((f'{o}#{i}', a, b if b is not None else ZERO))
                        if exact:
                            eufpairs.append((a, b))
            assume = domain_fn(case, res, terms) if domain_fn else []
            assume = assume + eps_path_assumptions(case, path, res, terms)
            pctx = PathCtx(run, case, path, terms, assume)
            r = decide_path(run, case, pctx, obs, role(case), revars=revars_of(res, terms))
            if r != 'infeasible' and eufpairs:
                n = euf_identical(run, eufpairs)
                run.notes_euf = getattr(run, 'notes_euf', [0, 0])
                run.notes_euf[0] += n
                run.notes_euf[1] += len(eufpairs)
        if len(run.samples) < 3 and case['paths'] and 'panic' not in case['paths'][0]['result']:
            r0 = case['paths'][0]['result']
            run.sample({'case': case_id(case), 'outputs_compared': [n for (n, _l) in r0['outputs']],
                        'paths': len(case['paths']),
                        'obligation': 'every leaf of each output equals the corresponding leaf of the reference '
                                      'output for all real operand values (absent = 0)'})


def run_same(run, specs, groups_fn, role, tag, domain_fn=None, chunk=40):
    chunks = [(specs[i:i + chunk], groups_fn, role, tag, domain_fn) for i in range(0, len(specs), chunk)]
    parallel(run, _same_chunk, chunks)


def kind_domain(case, res, terms):
    """domain assumptions of the underlying operation (reuses the primary oracle builder)"""
    try:
        _obs, assume = algebra.primary(case, res, terms)
        return assume
    except (ValueError, KeyError):
        return []


# ---------------------------------------------------------------------------------------------
# C07 absent == zero
# ---------------------------------------------------------------------------------------------
C07_SHAPES_QUICK = ['DualVec2', 'DualVecD2', 'Dual2VecD2', 'HyperDualVec21']
C07_SHAPES_ALL = ['DualVec1', 'DualVec2', 'DualVec3', 'DualVecD2', 'Dual2Vec1', 'Dual2Vec2', 'Dual2VecD2',
                  'HyperDualVec11', 'HyperDualVec21', 'HyperDualVec12', 'HyperDualVec22', 'HyperDualVecD22',
                  'DualVec2<Dual>', 'Dual<DualVec2>', 'Dual2VecD2<Dual>']


def c07(run):
    rng = random.Random(run.seed)
    shapes = C07_SHAPES_QUICK if run.tier == 'quick' else C07_SHAPES_ALL
    specs = []
    un = C01_FUNCS + ['neg', 'inv', 'sph_j0', 'sph_j1', 'sph_j2']
    for sh in shapes:
        cap1 = 8 if run.tier == 'quick' else 64
        cap2 = 16 if run.tier == 'quick' else 256
        p1 = presence_patterns(sh, 1, run.tier, rng, cap=cap1)
        p2 = presence_patterns(sh, 2, run.tier, rng, cap=cap2)
        p3 = presence_patterns(sh, 3, run.tier, rng, cap=cap2)
        for p in p1:
            for f in un:
                specs.append((sh, f'az:un:{f}', p))
            specs.append((sh, 'az:sincos', p))
            specs.append((sh, 'az:powf', p))
            specs.append((sh, 'az:log', p))
            for n in (-2, 0, 1, 2, 3, 5):
                specs.append((sh, f'az:powi:{n}', p))
            for op in ('add', 'sub', 'mul', 'div'):
                specs.append((sh, f'az:scalar:{op}', p))
        for p in p2:
            for op in ('add', 'sub', 'mul', 'div'):
                specs.append((sh, f'az:bin:{op}', p))
                specs.append((sh, f'az:assign:{op}', p))
            specs.append((sh, 'az:atan2', p))
            specs.append((sh, 'az:powd', p))
            specs.append((sh, 'az:abs_sub', p))
        for p in p3:
            specs.append((sh, 'az:mul_add', p))

    def groups(case, outs):
        g = []
        for n in outs:
            if n.endswith('_zf'):
                g.append((n, [n[:-3]], False))
        return g

    def dom(case, res, terms):
        k = case['kind']
        if k.startswith('az:assign:'):
            op = k.split(':')[2]
            if op == 'div':
                b = terms[dict(res['inputs'])['b'][0]]
                return [('ne', b, ZERO)]
            return []
        if k.startswith('az:scalar:'):
            if k.endswith('div'):
                return [('ne', terms[res['scalars'][0][1]], ZERO)]
            return []
        return kind_domain(case, res, terms)
    run.bounds = {'dimensions': '<= 3 (static) / 2 (dynamic)', 'presence patterns': 'all 2^k when <= cap, else '
                  'all-absent, all-present, single-absent, single-present and seeded random ones',
                  'induction': 'each operation maps an arbitrary operand in any representation and its '
                               'zero-filled twin to equal results; by induction this covers sequences of '
                               'compound assignments of any length'}
    run_same(run, specs, groups, lambda c: 'C07:' + c['kind'].replace('az:', ''), 'c07', dom)
    dv = dv_specs(run.tier)
    parallel(run, _dv_chunk, [dv[i:i + 30] for i in range(0, len(dv), 30)])


EXPLAIN['C07'] = ('every operation is traced on operands with each presence pattern and again on the same operands '
                  'with absent parts replaced by explicit zero matrices; z3 decides equality of every result part '
                  '(absent read as 0) for all real values: the representation relation is preserved by every '
                  'single step from an arbitrary state, hence along any sequence of operations')


# ---- direct operators of the public Derivative container --------------------------------------
DV_SHAPES = {'DV21': (2, 1), 'DV12': (1, 2), 'DV22': (2, 2), 'DV23': (2, 3), 'DVD21': (2, 1), 'DVD22': (2, 2)}


def dv_specs(tier):
    specs = []
    shapes = ['DV21', 'DV22', 'DVD21'] if tier == 'quick' else list(DV_SHAPES)
    for sh in shapes:
        for p in range(4):
            for f in ('own_own', 'own_ref', 'ref_ref', 'assign'):
                specs.append((sh, f'dv:add:{f}', p))
                specs.append((sh, f'dv:sub:{f}', p))
            specs.append((sh, 'dv:tr_mul', p))
            specs.append((sh, 'dv:matmul', p))
        for p in range(2):
            specs += [(sh, 'dv:neg:own', p), (sh, 'dv:neg:ref', p), (sh, 'dv:unwrap', p)]
            for f in ('own', 'ref', 'assign'):
                specs.append((sh, f'dv:mul_t:{f}', p))
                specs.append((sh, f'dv:div_t:{f}', p))
    return specs


def _dv_chunk(run, specs):
    cases = trace(specs, 'dv', run.seed)
    for case in cases:
        run.cases += 1
        run.instantiations.add(f"Derivative<S,S,{case['shape']}>")
        run.functions.add(case['kind'])
        if not check_validation(run, case):
            continue
        terms = ir.dag_to_terms(case['dag'])
        nr, nc = DV_SHAPES[case['shape']]
        op = case['kind'].split(':')[1]
        for path in case['paths']:
            res = path['result']
            if 'panic' in res:
                run.inconclusive.append({'case': case_id(case), 'reason': 'panic: ' + res['panic'][:80]})
                continue
            ins = {n: [t if t is not None else ZERO for t in algebra.leaves_terms(terms, l)]
                   for (n, l) in res['inputs']}
            y = algebra.leaves_terms(terms, res['outputs'][0][1])
            a = ins['a']
            A = lambda i, j: a[j * nr + i]
            assume = []
            if op in ('add', 'sub'):
                b = ins['b']
                want = [ir.add(x, z) if op == 'add' else ir.sub(x, z) for x, z in zip(a, b)]
            elif op == 'neg':
                want = [ir.neg(x) for x in a]
            elif op == 'unwrap':
                want = a
            elif op in ('mul_t', 'div_t'):
                t = terms[res['scalars'][0][1]]
                if op == 'div_t':
                    assume.append(('ne', t, ZERO))
                want = [ir.mul(x, t) if op == 'mul_t' else ir.div(x, t) for x in a]
            elif op == 'tr_mul':
                b = ins['b']
                B = lambda i, j: b[j * nr + i]
                want = []
                for j in range(nc):
                    for i in range(nc):
                        s_ = ZERO
                        for k in range(nr):
                            s_ = ir.add(s_, ir.mul(A(k, i), B(k, j)))
                        want.append(s_)
            elif op == 'matmul':
                b = ins['b']   # c x r, column-major
                B = lambda i, j: b[j * nc + i]
                want = []
                for j in range(nr):
                    for i in range(nr):
                        s_ = ZERO
                        for k in range(nc):
                            s_ = ir.add(s_, ir.mul(A(i, k), B(k, j)))
                        want.append(s_)
            obs = [(f'y#{i}', l, r) for i, (l, r) in enumerate(zip(y, want))]
            pctx = PathCtx(run, case, path, terms, assume)
            decide_path(run, case, pctx, obs, 'C07:derivative-container:' + op, revars=None, split=False)


# ---------------------------------------------------------------------------------------------
# C08 syntactic forms
# ---------------------------------------------------------------------------------------------
def c08(run):
    rng = random.Random(run.seed)
    shapes = ['Real'] + shapes_for(run.tier)
    specs = []
    for sh in shapes:
        p2 = presence_patterns(sh, 2, run.tier, rng, cap=4 if run.tier == 'quick' else 16)
        p1 = presence_patterns(sh, 1, run.tier, rng, cap=4 if run.tier == 'quick' else 8)
        for p in p2:
            for op in ('add', 'sub', 'mul', 'div'):
                specs.append((sh, f'forms:{op}', p))
            specs.append((sh, 'negforms', p))
        for p in p1:
            for op in ('add', 'sub', 'mul', 'div'):
                specs.append((sh, f'scalar:{op}', p))
        if sh != 'Real':
            for p in presence_patterns(sh, 3, run.tier, rng, cap=4 if run.tier == 'quick' else 16):
                specs.append((sh, 'mul_add', p))
                specs.append((sh, 'sumprod:3', p))
            for p in p2:
                specs.append((sh, 'sumprod:2', p))
            specs.append((sh, 'sumprod:0', 0))
            specs.append((sh, 'sumprod:1', (1 << ngroups(sh)) - 1))
            specs.append((sh, 'consts', 0))
            specs.append((sh, 'fromprim', 0))

    def groups(case, outs):
        k = case['kind'].split(':')[0]
        if k == 'forms':
            return [('ref_ref', ['own_own', 'own_ref', 'ref_own', 'assign'], True)]
        if k == 'negforms':
            return [('neg_ref', ['neg_own'], True), ('recip', ['inv'], True)]
        if k == 'scalar':
            return [('scalar', ['scalar_assign'], True), ('lifted', ['scalar'], False)]
        if k == 'mul_add':
            return [('ref', ['y'], True)]
        if k == 'sumprod':
            return [('sum_fold', ['sum_own', 'sum_ref'], True), ('prod_fold', ['prod_own', 'prod_ref'], True)]
        return []

    def dom(case, res, terms):
        k = case['kind']
        ins = dict(res['inputs'])
        if k in ('forms:div',):
            return [('ne', terms[ins['b'][0]], ZERO)]
        if k == 'negforms':
            return [('ne', terms[ins['b'][0]], ZERO)]
        if k == 'scalar:div':
            return [('ne', terms[res['scalars'][0][1]], ZERO)]
        return []
    main_specs = [s for s in specs if s[1] not in ('consts', 'fromprim')]
    run_same(run, main_specs, groups, lambda c: 'C08:' + c['kind'], 'c08', dom)
    const_specs = [s for s in specs if s[1] in ('consts', 'fromprim')]
    parallel(run, _c08_const_chunk, [const_specs[i:i + 6] for i in range(0, len(const_specs), 6)])
    run.bounds = {'items in Sum/Product': '0..3', 'presence patterns': 'capped, see C02',
                  'note': 'equality is decided in exact real arithmetic (the pass/fail criterion); where the '
                          'two forms are additionally the same operation sequence this is recorded as '
                          'bit-identical (EUF)'}


def _c08_const_chunk(run, specs):
    cases = trace(specs, 'c08c', run.seed)
    for case in cases:
        run.cases += 1
        run.instantiations.add(case['shape'] + '<S>')
        run.functions.add(case['kind'])
        if not check_validation(run, case):
            continue
        terms = ir.dag_to_terms(case['dag'])
        for path in case['paths']:
            res = path['result']
            if 'panic' in res:
                run.inconclusive.append({'case': case_id(case), 'reason': 'panic ' + res['panic'][:60]})
                continue
            outs = {n: algebra.leaves_terms(terms, l) for (n, l) in res['outputs']}
            obs = []
            exact = []

            def const_is(name, re_term):
                lv = outs[name]
                obs.append((f'{name}#0', lv[0], re_term))
                exact.append((lv[0], re_term))
                for i, t in enumerate(lv[1:], 1):
                    obs.append((f'{name}#{i}', t, ZERO))
            if case['kind'] == 'consts':
                const_is('zero', ZERO)
                const_is('one', ONE)
                f = terms[res['scalars'][0][1]]
                const_is('from_f', f)
                for n in outs:
                    if n.startswith('const_'):
                        const_is(n, outs['f' + n][0])
            else:
                for n in outs:
                    if not n.startswith('f_'):
                        const_is(n, outs['f_' + n][0])
            pctx = PathCtx(run, case, path, terms, [])
            decide_path(run, case, pctx, obs, 'C08:' + case['kind'], revars=None, split=False)
            n = euf_identical(run, exact)
            if n != len(exact):
                run.violations.append({'case': case_id(case), 'role': 'C08:' + case['kind'],
                                       'obligation': 'real part of a constant is the very constant of the float type',
                                       'detail': f'{len(exact) - n} constant(s) are not the float constant itself'})


EXPLAIN['C08'] = ('all operator forms are traced in one case each and z3 decides leaf-wise equality with the '
                  'reference form for all real values and presence patterns; constants/conversions: real part '
                  'is the float constant itself (EUF-identical), every derivative part zero or absent')
