"""Per-property check drivers (engine E1 part)."""
import itertools
import random
from fractions import Fraction

import z3

from . import ir, jets, algebra
from .core import *
from .ir import ZERO, ONE, const

SC = ['Dual', 'Dual2', 'Dual3', 'HyperDual', 'HyperHyperDual']
VEC_QUICK = ['DualVec1', 'DualVec2', 'DualVec3', 'DualVecD2', 'Dual2Vec1', 'Dual2Vec2', 'Dual2VecD2',
             'HyperDualVec11', 'HyperDualVec21', 'HyperDualVec12', 'HyperDualVec22', 'HyperDualVec23',
             'HyperDualVecD22']
VEC_ALL = ['DualVec1', 'DualVec2', 'DualVec3', 'DualVec4', 'DualVec6', 'DualVecD2', 'DualVecD4', 'DualVecD6',
           'Dual2Vec1', 'Dual2Vec2', 'Dual2Vec3', 'Dual2Vec4', 'Dual2VecD2', 'Dual2VecD4',
           'HyperDualVec11', 'HyperDualVec21', 'HyperDualVec12', 'HyperDualVec22', 'HyperDualVec23',
           'HyperDualVec33', 'HyperDualVec42', 'HyperDualVecD22', 'HyperDualVecD33']
NEST_QUICK = ['Dual<Dual>', 'Dual2<Dual>', 'Dual<Dual2>', 'HyperDual<Dual>', 'Dual3<Dual>', 'Dual<Dual<Dual>>']
NEST_ALL = ['Dual<Dual>', 'Dual2<Dual>', 'Dual<Dual2>', 'HyperDual<Dual>', 'Dual3<Dual>', 'Dual<Dual<Dual>>',
            'DualVec2<Dual>', 'Dual<DualVec2>', 'Dual2VecD2<Dual>']

NGROUPS = None


def ngroups(shape):
    global NGROUPS
    if NGROUPS is None:
        build_symtrace()
        import subprocess
        out = subprocess.run([BIN, 'shapes'], stdout=subprocess.PIPE, text=True).stdout
        NGROUPS = {l.split('\t')[0]: int(l.split('\t')[1]) for l in out.splitlines() if l.strip()}
    return NGROUPS[shape]


def presence_patterns(shape, noperands, tier, rng, cap=None):
    """presence bit patterns for all optional groups of all operands; exhaustive when small"""
    g = ngroups(shape) * noperands
    if g == 0:
        return [0]
    total = 1 << g
    cap = cap or (16 if tier == 'quick' else 256)
    if total <= cap:
        return list(range(total))
    pats = {total - 1, 0}
    # every single-absent and single-present pattern, then random fill
    for i in range(g):
        pats.add((total - 1) & ~(1 << i))
        pats.add(1 << i)
    pats = set(list(pats)[:cap])
    while len(pats) < cap:
        pats.add(rng.randrange(total))
    return sorted(pats)


def shapes_for(tier, which=('sc', 'vec', 'nest')):
    s = []
    if 'sc' in which:
        s += SC
    if 'vec' in which:
        s += VEC_QUICK if tier == 'quick' else VEC_ALL
    if 'nest' in which:
        s += NEST_QUICK if tier == 'quick' else NEST_ALL
    return s


def revars_of(res, terms):
    """names of the real-part variables (innermost real part of every operand, scalar arguments)"""
    rv = set()
    for (_n, leaves) in res['inputs']:
        t = terms[leaves[0]]
        if t[0] == 'var':
            rv.add(t[1])
    for (_n, v) in res['scalars']:
        t = terms[v]
        if t[0] == 'var':
            rv.add(t[1])
    return rv


def eps_path_assumptions(case, path, res, terms):
    """Stated bound: on a path taken because |e| < EPSILON, the obligation is stated for e = 0
    (the path's interval has width 2*eps; the perturbation inside it is a rounding-level fact)."""
    out = []
    for c in path['conds']:
        a, b = terms[c[1]], terms[c[2]]
        if c[0] == 'lt' and c[3] and b == ('named', 'EPSILON') and a[0] == 'fn' and a[1] == 'abs':
            out.append(('eq', a[2], ZERO))
    return out


def run_algebra(run, specs, role, tag, extra_assume=None, chunk=40):
    """trace specs and decide, on every path, implementation == Taylor-algebra oracle"""
    chunks = [specs[i:i + chunk] for i in range(0, len(specs), chunk)]
    parallel(run, lambda sub, ch: _run_algebra_chunk(sub, ch, role, tag, extra_assume), chunks)


def _run_algebra_chunk(run, specs, role, tag, extra_assume):
    cases = trace(specs, tag, run.seed)
    for case in cases:
        run.cases += 1
        run.instantiations.add(case['shape'] + '<S>')
        run.functions.add(case['kind'].replace('az:', ''))
        if not check_validation(run, case):
            continue
        terms = ir.dag_to_terms(case['dag'])
        for path in case['paths']:
            res = path['result']
            r = role(case) if callable(role) else role
            if 'panic' in res:
                # a panicking path must be infeasible on the function's domain; build the domain
                # from another path's inputs (same variable names)
                okp = next((p for p in case['paths'] if 'panic' not in p['result']), None)
                assume = []
                if okp is not None:
                    try:
                        _, assume = algebra.primary(case, okp['result'], terms)
                    except Exception:
                        assume = []
                pctx = PathCtx(run, case, path, terms, assume)
                run.paths += 1
                if decide_infeasible(run, case, pctx, 'panic path: ' + res['panic'][:80], r):
                    run.infeasible_paths += 1
                continue
            try:
                obs, assume = algebra.primary(case, res, terms)
                if extra_assume:
                    assume = assume + extra_assume(case, path, res, terms)
                pctx = PathCtx(run, case, path, terms, assume)
                decide_path(run, case, pctx, obs, r, revars=revars_of(res, terms))
            except ir.Inconclusive as e:
                run.inconclusive.append({'case': case_id(case), 'reason': str(e)})
        if len(run.samples) < 3 and case['paths']:
            p0 = case['paths'][0]
            if 'panic' not in p0['result'] and p0['result']['outputs']:
                on, ol = p0['result']['outputs'][0]
                last = ol[-1]
                run.sample({'case': case_id(case), 'paths': len(case['paths']),
                            'dag_nodes': len(case['dag']),
                            'path_conditions': [[c[0], str(terms[c[1]])[:80], str(terms[c[2]])[:40], c[3]]
                                                for c in p0['conds']][:4],
                            'obligation': f'{on}#{len(ol) - 1}: traced implementation term == set-partition '
                                          'Faa di Bruno composition of sympy derivatives, split per monomial '
                                          'of the derivative parts',
                            'implementation_term': (str(terms[last])[:300] if last is not None else 'absent')})


C01_FUNCS = ['recip', 'sqrt', 'cbrt', 'exp', 'exp2', 'exp_m1', 'ln', 'log2', 'log10', 'ln_1p', 'sin', 'cos',
             'tan', 'asin', 'acos', 'atan', 'sinh', 'cosh', 'tanh', 'asinh', 'acosh', 'atanh', 'abs', 'signum']


def c01(run):
    rng = random.Random(run.seed)
    specs = []
    for sh in shapes_for(run.tier):
        pats = presence_patterns(sh, 1, run.tier, rng, cap=4 if run.tier == 'quick' else 16)
        for f in C01_FUNCS:
            for p in pats:
                specs.append((sh, f'un:{f}', p))
        for p in pats:
            specs.append((sh, 'sincos', p))
            specs.append((sh, 'log', p))
        pats2 = presence_patterns(sh, 2, run.tier, rng, cap=4 if run.tier == 'quick' else 16)
        for p in pats2:
            specs.append((sh, 'atan2', p))
            specs.append((sh, 'abs_sub', p))
    run.bounds = {'vector dimensions': '<= 3', 'nesting depth': '<= 3', 'total derivative order': '<= 4',
                  'fork depth per path': 40,
                  'outside': 'rounding clause (u * sum|terms|) is not decided; f32/f64 share the one generic '
                             'body traced at S'}

    def role(case):
        k = case['kind']
        return 'C01:' + k.split(':')[-1] if k.startswith('un:') else 'C01:' + k
    run_algebra(run, specs, role, 'c01')


def c02(run):
    rng = random.Random(run.seed)
    specs = []
    for sh in shapes_for(run.tier):
        pats2 = presence_patterns(sh, 2, run.tier, rng, cap=16 if run.tier == 'quick' else 256)
        for op in ('add', 'sub', 'mul', 'div'):
            for p in pats2:
                specs.append((sh, f'bin:{op}', p))
                specs.append((sh, f'assign:{op}', p))
        pats1 = presence_patterns(sh, 1, run.tier, rng)
        for p in pats1:
            specs.append((sh, 'un:neg', p))
            specs.append((sh, 'un:recip', p))
            for n in (2, 3, -1, -2):
                specs.append((sh, f'powi:{n}', p))
    run.bounds = {'vector dimensions': '<= 3', 'nesting depth': '<= 3',
                  'presence patterns': 'all 4^k for two operands when <= cap, else all single-absent/'
                                       'single-present patterns plus seeded random ones',
                  'outside': 'bit-exactness on dyadic grids is decided by the Kani harnesses (E2) for '
                             'Dual/Dual2/HyperDual only'}
    run_algebra(run, specs, lambda c: 'C02:' + c['kind'], 'c02')

EXPLAIN = {
    'C01': 'bounded solver-based check: the crate\'s generic code is executed over a symbolic scalar, every '
           'control-flow path enumerated; z3 decides per result part, for all real operand values in the '
           'function\'s domain, equality with the set-partition Faa di Bruno composition of sympy\'s derivatives',
    'C02': 'as C01 for + - * / neg recip powi on two independent operands, all presence patterns',
}


# ---------------------------------------------------------------------------------------------
# C15 spherical Bessel functions
# ---------------------------------------------------------------------------------------------
def _series_coeffs(fname, upto):
    import sympy as sp
    expr, syms = jets.SYMPY_FUNCS[fname]
    x = syms[0]
    ser = sp.series(expr, x, 0, upto + 1).removeO()
    poly = sp.Poly(ser, x)
    return [sp.Rational(poly.coeff_monomial(x ** k)) for k in range(upto + 1)]


def _c15_chunk(run, specs):
    import sympy as sp
    cases = trace(specs, 'c15', run.seed)
    EPS = ('named', 'EPSILON')
    for case in cases:
        run.cases += 1
        run.instantiations.add(case['shape'] + '<S>')
        f = case['kind'].split(':')[1]
        run.functions.add(f)
        if not check_validation(run, case):
            continue
        terms = ir.dag_to_terms(case['dag'])
        levels = case['levels']
        order = jets.max_order(levels) if levels else 0
        coeffs = _series_coeffs(f, order + 8)
        for path in case['paths']:
            res = path['result']
            if 'panic' in res:
                run.inconclusive.append({'case': case_id(case), 'reason': 'panic path ' + res['panic'][:60]})
                continue
            ins = {n: algebra.leaves_terms(terms, l) for (n, l) in res['inputs']}
            outs = {n: algebra.leaves_terms(terms, l) for (n, l) in res['outputs']}
            x = ins['x']
            xr = x[0]
            rv = revars_of(res, terms)
            # (A) |x| >= eps: exactly the closed form composed with the operand's parts
            obs, assume = algebra.primary(case, res, terms)
            assume = [a for a in assume] + [('or', ('ge', xr, EPS), ('le', xr, ir.neg(EPS)))]
            pctx = PathCtx(run, case, path, terms, assume)
            decide_path(run, case, pctx, obs, f'C15:{f}:closed-form-region', revars=rv)
            # (B') x == 0: every part equals the composition of the true derivatives at 0
            fact = 1
            d0 = []
            for k in range(order + 1):
                if k:
                    fact *= k
                q = coeffs[k] * fact
                d0.append(ir.T('const', Fraction(int(q.p), int(q.q))))
            oracle0 = jets.compose(levels, [x], lambda alpha: d0[alpha[0]]) if levels else [d0[0]]
            obs0 = [(f'y#{i}', a, b) for i, (a, b) in enumerate(zip(outs['y'], oracle0))]
            pctx = PathCtx(run, case, path, terms, [('eq', xr, ZERO)])
            decide_path(run, case, pctx, obs0, f'C15:{f}:at-zero', revars=rv)
            # (B'') 0 < |x| < eps: every coefficient within 2^-20 of the degree-(order+8) Taylor
            # polynomial of the true function (whose own truncation error there is < 2^-100)
            def dser(alpha, coeffs=coeffs):
                k = alpha[0]
                t = ZERO
                for j in range(len(coeffs) - 1, k - 1, -1):
                    c = coeffs[j]
                    for i in range(k):
                        c = c * (j - i)
                    t = ir.add(ir.mul(t, xr), ir.T('const', Fraction(int(c.p), int(c.q))))
                return t
            oracle_s = jets.compose(levels, [x], dser) if levels else [dser((0,))]
            obss = [(f'y#{i}', a, b) for i, (a, b) in enumerate(zip(outs['y'], oracle_s))]
            pctx = PathCtx(run, case, path, terms, [('lt', xr, EPS), ('gt', xr, ir.neg(EPS))])
            # tolerance: 2^-20 relative to the true coefficient plus eps/4 absolute (the rounding
            # level of a well-conditioned evaluation; eps is the symbolic machine epsilon)
            tolfn = lambda cr: ir.add(ir.mul(ir.T('const', Fraction(1, 2 ** 20)), ir.fn('abs', cr)),
                                      ir.T('div', EPS, const(4)))
            decide_path(run, case, pctx, obss, f'C15:{f}:series-region', revars=rv,
                        tol=tolfn, vacuity=False)
        if len(run.samples) < 3:
            run.sample({'case': case_id(case), 'paths': len(case['paths']),
                        'conditions': [[c[0], str(terms[c[1]])[:50], str(terms[c[2]])[:30], c[3]]
                                       for c in case['paths'][0]['conds']],
                        'obligations': ['|x|>=eps: parts == FaaDiBruno(closed form)',
                                        'x==0: parts == FaaDiBruno(sympy series coefficients * k!)',
                                        '|x|<eps: |coefficient - Taylor polynomial| <= 2^-20']})


def c15(run):
    rng = random.Random(run.seed)
    shapes = ['Real'] + SC + ['DualVec2', 'Dual2<Dual>']
    if run.tier == 'thorough':
        shapes += ['Dual2VecD2', 'HyperDualVec22', 'Dual<Dual>', 'Dual<Dual2>', 'HyperDual<Dual>', 'Dual3<Dual>',
                   'Dual<Dual<Dual>>', 'DualVec2<Dual>']
    specs = []
    for sh in shapes:
        for f in ('sph_j0', 'sph_j1', 'sph_j2'):
            for p in presence_patterns(sh, 1, run.tier, rng, cap=4):
                specs.append((sh, f'un:{f}', p))
    run.bounds = {'total derivative order': '<= 4 (series of the repository are exact at 0 up to order 4)',
                  'tolerance in the series region': '2^-20 relative to the true coefficient + eps/4 absolute, |x| < eps <= 2^-23',
                  'outside': 'rounding of the closed forms for tiny non-zero |x| >= eps (cancellation) is a '
                             'floating-point fact and is not decided'}
    chunks = [specs[i:i + 8] for i in range(0, len(specs), 8)]
    parallel(run, _c15_chunk, chunks)


EXPLAIN['C15'] = ('sph_j0/1/2 traced on every path for dual types and for the plain-float leaf (the repository\'s '
                  'own macro text expanded at S); z3 decides: closed form exact for |x| >= eps (so a series '
                  'path reachable there is a violation), exact Taylor data at x = 0, and a 2^-20 bound against '
                  'the high-order Taylor polynomial for 0 < |x| < eps')


# ---------------------------------------------------------------------------------------------
# C09 powers (E1 part: all bases, real and dual exponents, listed integer exponents)
# ---------------------------------------------------------------------------------------------
POWI_QUICK = [-(2 ** 30), -1000, -3, -2, -1, 0, 1, 2, 3, 4, 5, 7, 1000, 2 ** 30]
POWI_THOROUGH = sorted(set(POWI_QUICK + list(range(-8, 13)) + [46341, 46342, 1291, 1292, -1292, -46342, 65536,
                                                            2 ** 30 - 1, -(2 ** 30) + 1, 123456789]))


def c09_e1(run):
    rng = random.Random(run.seed)
    specs = []
    shapes = shapes_for(run.tier)
    for sh in shapes:
        pats = presence_patterns(sh, 1, run.tier, rng, cap=2 if run.tier == 'quick' else 8)
        for p in pats:
            for n in (POWI_QUICK if run.tier == 'quick' else POWI_THOROUGH):
                specs.append((sh, f'powi:{n}', p))
            specs.append((sh, 'powf', p))
            for v in ('0.5', '-1.5', '2.5', '0.3333333333333333', '3', '-2', '7.25'):
                specs.append((sh, f'powfc:{v}', p))
            specs.append((sh, 'un:recip', p))
            specs.append((sh, 'un:sqrt', p))
            specs.append((sh, 'un:cbrt', p))
        for p in presence_patterns(sh, 2, run.tier, rng, cap=2 if run.tier == 'quick' else 8):
            specs.append((sh, 'powd', p))

    def role(case):
        k = case['kind']
        if k.startswith('powi'):
            n = int(k.split(':')[1])
            return 'C09:powi:coefficient-overflow' if abs(n) >= 1292 else 'C09:powi'
        return 'C09:' + k.split(':')[0]
    run_algebra(run, specs, role, 'c09', extra_assume=eps_path_assumptions)
    run.notes.append('cross-agreement powi(n) = powf(n) = repeated multiplication = exp(n ln x), recip = '
                     'powi(-1), sqrt = powf(1/2), cbrt = powf(1/3): every one of them is decided equal to the '
                     'same oracle x^n (sympy derivatives) on the common domain, so they agree pairwise')
    run.notes.append('on a path selected by |n - c| < eps the obligation is stated for n = c (stated bound)')


# ---------------------------------------------------------------------------------------------
# "same" obligations: several outputs of one case must agree (C07, C08)
# ---------------------------------------------------------------------------------------------
def euf_identical(run, pairs):
    """number of pairs whose two terms are the same operation sequence on the same inputs
    (decided by z3 over uninterpreted functions with commutativity of add/mul)"""
    enc = ir.EufEnc()
    s = run.solver("euf")
    U = ir._U
    x, y = z3.Consts('x y', U)
    for fn_name in ('add', 'mul'):
        f = enc.f(fn_name, 2)
        s.add(z3.ForAll([x, y], f(x, y) == f(y, x)))
    cnt = 0
    for (a, b) in pairs:
        if a is None and b is None:
            cnt += 1
            continue
        if a is None or b is None:
            continue
        ea, eb = enc.enc(a), enc.enc(b)
        if ea.eq(eb):
            cnt += 1
            continue
        s.push()
        s.add(ea != eb)
        if run.check(s) == z3.unsat:
            cnt += 1
        s.pop()
    return cnt


def _same_chunk(run, args):
    specs, groups_fn, role, tag, domain_fn = args
    cases = trace(specs, tag, run.seed)
    for case in cases:
        run.cases += 1
        run.instantiations.add(case['shape'] + '<S>')
        run.functions.add(case['kind'])
        if not check_validation(run, case):
            continue
        terms = ir.dag_to_terms(case['dag'])
        for path in case['paths']:
            res = path['result']
            if 'panic' in res:
                assume = []
                pctx = PathCtx(run, case, path, terms, assume)
                run.paths += 1
                if decide_infeasible(run, case, pctx, 'panic path: ' + res['panic'][:80], role(case)):
                    run.infeasible_paths += 1
                continue
            outs = {n: algebra.leaves_terms(terms, l) for (n, l) in res['outputs']}
            obs = []
            eufpairs = []
            for (ref, others, exact) in groups_fn(case, outs):
                for o in others:
                    for i, (a, b) in enumerate(zip(outs[o], outs[ref])):
                        obs.append((f'{o}#{i}', a, b if b is not None else ZERO))
                        if exact:
                            eufpairs.append((a, b))
            assume = domain_fn(case, res, terms) if domain_fn else []
            assume = assume + eps_path_assumptions(case, path, res, terms)
            pctx = PathCtx(run, case, path, terms, assume)
            r = decide_path(run, case, pctx, obs, role(case), revars=revars_of(res, terms))
            if r != 'infeasible' and eufpairs:
                n = euf_identical(run, eufpairs)
                run.notes_euf = getattr(run, 'notes_euf', [0, 0])
                run.notes_euf[0] += n
                run.notes_euf[1] += len(eufpairs)
        if len(run.samples) < 3 and case['paths'] and 'panic' not in case['paths'][0]['result']:
            r0 = case['paths'][0]['result']
            run.sample({'case': case_id(case), 'outputs_compared': [n for (n, _l) in r0['outputs']],
                        'paths': len(case['paths']),
                        'obligation': 'every leaf of each output equals the corresponding leaf of the reference '
                                      'output for all real operand values (absent = 0)'})


def run_same(run, specs, groups_fn, role, tag, domain_fn=None, chunk=40):
    chunks = [(specs[i:i + chunk], groups_fn, role, tag, domain_fn) for i in range(0, len(specs), chunk)]
    parallel(run, _same_chunk, chunks)


def kind_domain(case, res, terms):
    """domain assumptions of the underlying operation (reuses the primary oracle builder)"""
    try:
        _obs, assume = algebra.primary(case, res, terms)
        return assume
    except (ValueError, KeyError):
        return []


# ---------------------------------------------------------------------------------------------
# C07 absent == zero
# ---------------------------------------------------------------------------------------------
C07_SHAPES_QUICK = ['DualVec1', 'DualVec2', 'DualVec3', 'DualVecD2', 'Dual2Vec1', 'Dual2Vec2', 'Dual2VecD2',
                    'HyperDualVec11', 'HyperDualVec21', 'HyperDualVec12', 'HyperDualVec22', 'HyperDualVecD22',
                    'DualVec2<Dual>', 'Dual<DualVec2>', 'Dual2VecD2<Dual>']
C07_SHAPES_ALL = ['DualVec1', 'DualVec2', 'DualVec3', 'DualVec6', 'DualVecD2', 'DualVecD6', 'Dual2Vec1', 'Dual2Vec2',
                  'Dual2Vec4', 'Dual2VecD2', 'Dual2VecD4', 'HyperDualVec11', 'HyperDualVec21', 'HyperDualVec12',
                  'HyperDualVec22', 'HyperDualVec33', 'HyperDualVecD22', 'HyperDualVecD33',
                  'DualVec2<Dual>', 'Dual<DualVec2>', 'Dual2VecD2<Dual>']


def c07(run):
    rng = random.Random(run.seed)
    shapes = C07_SHAPES_QUICK if run.tier == 'quick' else C07_SHAPES_ALL
    specs = []
    un = C01_FUNCS + ['neg', 'inv', 'sph_j0', 'sph_j1', 'sph_j2']
    for sh in shapes:
        cap1 = 8 if run.tier == 'quick' else 64
        cap2 = 16 if run.tier == 'quick' else 256
        p1 = presence_patterns(sh, 1, run.tier, rng, cap=cap1)
        p2 = presence_patterns(sh, 2, run.tier, rng, cap=cap2)
        p3 = presence_patterns(sh, 3, run.tier, rng, cap=cap2)
        for p in p1:
            for f in un:
                specs.append((sh, f'az:un:{f}', p))
            specs.append((sh, 'az:sincos', p))
            specs.append((sh, 'az:powf', p))
            specs.append((sh, 'az:log', p))
            for n in (-2, 0, 1, 2, 3, 5):
                specs.append((sh, f'az:powi:{n}', p))
            for op in ('add', 'sub', 'mul', 'div'):
                specs.append((sh, f'az:scalar:{op}', p))
        for p in p2:
            for op in ('add', 'sub', 'mul', 'div'):
                specs.append((sh, f'az:bin:{op}', p))
                specs.append((sh, f'az:assign:{op}', p))
            specs.append((sh, 'az:atan2', p))
            specs.append((sh, 'az:powd', p))
            specs.append((sh, 'az:abs_sub', p))
        for p in p3:
            specs.append((sh, 'az:mul_add', p))

    def groups(case, outs):
        g = []
        for n in outs:
            if n.endswith('_zf'):
                g.append((n, [n[:-3]], False))
        return g

    def dom(case, res, terms):
        k = case['kind']
        if k.startswith('az:assign:'):
            op = k.split(':')[2]
            if op == 'div':
                b = terms[dict(res['inputs'])['b'][0]]
                return [('ne', b, ZERO)]
            return []
        if k.startswith('az:scalar:'):
            if k.endswith('div'):
                return [('ne', terms[res['scalars'][0][1]], ZERO)]
            return []
        return kind_domain(case, res, terms)
    run.bounds = {'dimensions': '<= 3 (static) / 2 (dynamic)', 'presence patterns': 'all 2^k when <= cap, else '
                  'all-absent, all-present, single-absent, single-present and seeded random ones',
                  'drivers': 'gradient, hessian, jacobian, partial_hessian (and try_ variants) with the closure '
                             'returning all-absent, all-present, one-absent and one-present components; '
                             'static and dynamic, dims as in C05',
                  'induction': 'each operation maps an arbitrary operand in any representation and its '
                               'zero-filled twin to equal results; by induction this covers sequences of '
                               'compound assignments of any length'}
    run_same(run, specs, groups, lambda c: 'C07:' + c['kind'].replace('az:', ''), 'c07', dom)
    dv = dv_specs(run.tier)
    parallel(run, _dv_chunk, [dv[i:i + 30] for i in range(0, len(dv), 30)])
    # driver functions: whatever representation the closure's outputs use (every component absent,
    # every component present with arbitrary - in particular zero - entries, one component absent,
    # one component present), the driver hands back the parts with absent read as zero
    drv = [sp for sp in dict.fromkeys(_drv_specs(run.tier))
           if ':probe' in sp[1] and sp[1].split(':')[1] in ('gradient', 'hessian', 'jacobian', 'phess')]
    parallel(run, _c05_chunk, [drv[i:i + 6] for i in range(0, len(drv), 6)])


EXPLAIN['C07'] = ('every operation is traced on operands with each presence pattern and again on the same operands '
                  'with absent parts replaced by explicit zero matrices; z3 decides equality of every result part '
                  '(absent read as 0) for all real values: the representation relation is preserved by every '
                  'single step from an arbitrary state, hence along any sequence of operations')


# ---- direct operators of the public Derivative container --------------------------------------
DV_SHAPES = {'DV21': (2, 1), 'DV12': (1, 2), 'DV22': (2, 2), 'DV23': (2, 3), 'DVD21': (2, 1), 'DVD22': (2, 2)}


def dv_specs(tier):
    specs = []
    shapes = ['DV21', 'DV22', 'DVD21'] if tier == 'quick' else list(DV_SHAPES)
    for sh in shapes:
        for p in range(4):
            for f in ('own_own', 'own_ref', 'ref_ref', 'assign'):
                specs.append((sh, f'dv:add:{f}', p))
                specs.append((sh, f'dv:sub:{f}', p))
            specs.append((sh, 'dv:tr_mul', p))
            specs.append((sh, 'dv:matmul', p))
        for p in range(2):
            specs += [(sh, 'dv:neg:own', p), (sh, 'dv:neg:ref', p), (sh, 'dv:unwrap', p)]
            for f in ('own', 'ref', 'assign'):
                specs.append((sh, f'dv:mul_t:{f}', p))
                specs.append((sh, f'dv:div_t:{f}', p))
    return specs


def _dv_chunk(run, specs):
    cases = trace(specs, 'dv', run.seed)
    for case in cases:
        run.cases += 1
        run.instantiations.add(f"Derivative<S,S,{case['shape']}>")
        run.functions.add(case['kind'])
        if not check_validation(run, case):
            continue
        terms = ir.dag_to_terms(case['dag'])
        nr, nc = DV_SHAPES[case['shape']]
        op = case['kind'].split(':')[1]
        for path in case['paths']:
            res = path['result']
            if 'panic' in res:
                run.inconclusive.append({'case': case_id(case), 'reason': 'panic: ' + res['panic'][:80]})
                continue
            ins = {n: [t if t is not None else ZERO for t in algebra.leaves_terms(terms, l)]
                   for (n, l) in res['inputs']}
            y = algebra.leaves_terms(terms, res['outputs'][0][1])
            a = ins['a']
            A = lambda i, j: a[j * nr + i]
            assume = []
            if op in ('add', 'sub'):
                b = ins['b']
                want = [ir.add(x, z) if op == 'add' else ir.sub(x, z) for x, z in zip(a, b)]
            elif op == 'neg':
                want = [ir.neg(x) for x in a]
            elif op == 'unwrap':
                want = a
            elif op in ('mul_t', 'div_t'):
                t = terms[res['scalars'][0][1]]
                if op == 'div_t':
                    assume.append(('ne', t, ZERO))
                want = [ir.mul(x, t) if op == 'mul_t' else ir.div(x, t) for x in a]
            elif op == 'tr_mul':
                b = ins['b']
                B = lambda i, j: b[j * nr + i]
                want = []
                for j in range(nc):
                    for i in range(nc):
                        s_ = ZERO
                        for k in range(nr):
                            s_ = ir.add(s_, ir.mul(A(k, i), B(k, j)))
                        want.append(s_)
            elif op == 'matmul':
                b = ins['b']   # c x r, column-major
                B = lambda i, j: b[j * nc + i]
                want = []
                for j in range(nr):
                    for i in range(nr):
                        s_ = ZERO
                        for k in range(nc):
                            s_ = ir.add(s_, ir.mul(A(i, k), B(k, j)))
                        want.append(s_)
            obs = [(f'y#{i}', l, r) for i, (l, r) in enumerate(zip(y, want))]
            pctx = PathCtx(run, case, path, terms, assume)
            decide_path(run, case, pctx, obs, 'C07:derivative-container:' + op, revars=None, split=False)


# ---------------------------------------------------------------------------------------------
# C08 syntactic forms
# ---------------------------------------------------------------------------------------------
def c08(run):
    rng = random.Random(run.seed)
    shapes = ['Real'] + shapes_for(run.tier)
    specs = []
    for sh in shapes:
        p2 = presence_patterns(sh, 2, run.tier, rng, cap=4 if run.tier == 'quick' else 16)
        p1 = presence_patterns(sh, 1, run.tier, rng, cap=4 if run.tier == 'quick' else 8)
        for p in p2:
            for op in ('add', 'sub', 'mul', 'div'):
                specs.append((sh, f'forms:{op}', p))
            specs.append((sh, 'negforms', p))
        for p in p1:
            for op in ('add', 'sub', 'mul', 'div'):
                specs.append((sh, f'scalar:{op}', p))
        if sh != 'Real':
            for p in presence_patterns(sh, 3, run.tier, rng, cap=4 if run.tier == 'quick' else 16):
                specs.append((sh, 'mul_add', p))
                specs.append((sh, 'sumprod:3', p))
            for p in p2:
                specs.append((sh, 'sumprod:2', p))
            specs.append((sh, 'sumprod:0', 0))
            specs.append((sh, 'sumprod:1', (1 << ngroups(sh)) - 1))
            specs.append((sh, 'consts', 0))
            specs.append((sh, 'fromprim', 0))

    def groups(case, outs):
        k = case['kind'].split(':')[0]
        if k == 'forms':
            return [('ref_ref', ['own_own', 'own_ref', 'ref_own', 'assign'], True)]
        if k == 'negforms':
            return [('neg_ref', ['neg_own'], True), ('recip', ['inv'], True)]
        if k == 'scalar':
            return [('scalar', ['scalar_assign'], True), ('lifted', ['scalar'], False)]
        if k == 'mul_add':
            return [('ref', ['y'], True)]
        if k == 'sumprod':
            return [('sum_fold', ['sum_own', 'sum_ref'], True), ('prod_fold', ['prod_own', 'prod_ref'], True)]
        return []

    def dom(case, res, terms):
        k = case['kind']
        ins = dict(res['inputs'])
        if k in ('forms:div',):
            return [('ne', terms[ins['b'][0]], ZERO)]
        if k == 'negforms':
            return [('ne', terms[ins['b'][0]], ZERO)]
        if k == 'scalar:div':
            return [('ne', terms[res['scalars'][0][1]], ZERO)]
        return []
    main_specs = [s for s in specs if s[1] not in ('consts', 'fromprim')]
    run_same(run, main_specs, groups, lambda c: 'C08:' + c['kind'], 'c08', dom)
    const_specs = [s for s in specs if s[1] in ('consts', 'fromprim')]
    parallel(run, _c08_const_chunk, [const_specs[i:i + 6] for i in range(0, len(const_specs), 6)])
    run.bounds = {'items in Sum/Product': '0..3', 'presence patterns': 'capped, see C02',
                  'note': 'equality is decided in exact real arithmetic (the pass/fail criterion); where the '
                          'two forms are additionally the same operation sequence this is recorded as '
                          'bit-identical (EUF)'}


def _c08_const_chunk(run, specs):
    cases = trace(specs, 'c08c', run.seed)
    for case in cases:
        run.cases += 1
        run.instantiations.add(case['shape'] + '<S>')
        run.functions.add(case['kind'])
        if not check_validation(run, case):
            continue
        terms = ir.dag_to_terms(case['dag'])
        for path in case['paths']:
            res = path['result']
            if 'panic' in res:
                run.inconclusive.append({'case': case_id(case), 'reason': 'panic ' + res['panic'][:60]})
                continue
            outs = {n: algebra.leaves_terms(terms, l) for (n, l) in res['outputs']}
            obs = []
            exact = []

            def const_is(name, re_term):
                lv = outs[name]
                obs.append((f'{name}#0', lv[0], re_term))
                exact.append((lv[0], re_term))
                for i, t in enumerate(lv[1:], 1):
                    obs.append((f'{name}#{i}', t, ZERO))
            if case['kind'] == 'consts':
                const_is('zero', ZERO)
                const_is('one', ONE)
                f = terms[res['scalars'][0][1]]
                const_is('from_f', f)
                for n in outs:
                    if n.startswith('const_'):
                        const_is(n, outs['f' + n][0])
            else:
                for n in outs:
                    if not n.startswith('f_'):
                        const_is(n, outs['f_' + n][0])
            pctx = PathCtx(run, case, path, terms, [])
            decide_path(run, case, pctx, obs, 'C08:' + case['kind'], revars=None, split=False)
            n = euf_identical(run, exact)
            if n != len(exact):
                run.violations.append({'case': case_id(case), 'role': 'C08:' + case['kind'],
                                       'obligation': 'real part of a constant is the very constant of the float type',
                                       'detail': f'{len(exact) - n} constant(s) are not the float constant itself'})


EXPLAIN['C08'] = ('all operator forms are traced in one case each and z3 decides leaf-wise equality with the '
                  'reference form for all real values and presence patterns; constants/conversions: real part '
                  'is the float constant itself (EUF-identical), every derivative part zero or absent')


# ---------------------------------------------------------------------------------------------
# C06 (E1 part): the real part and every branch depend on real parts only
# ---------------------------------------------------------------------------------------------
def _c06_chunk(run, specs):
    cases = trace(specs, 'c06', run.seed)
    rng = random.Random(run.seed + 17)
    for case in cases:
        run.cases += 1
        run.instantiations.add(case['shape'] + '<S>')
        run.functions.add(case['kind'])
        if not check_validation(run, case):
            continue
        terms = ir.dag_to_terms(case['dag'])
        names = [n[1] for n in case['dag'] if n[0] == 'var']
        for path in case['paths']:
            res = path['result']
            run.paths += 1
            if 'panic' in res:
                continue   # panics are the subject of C01/C09/C10 obligations
            rv = revars_of(res, terms)
            e1 = ir.EufEnc()
            e2 = ir.EufEnc(suffix="'", shared_vars=rv)
            s = run.solver("euf")
            diffs = []
            what = []
            for (n, leaves) in res['outputs']:
                if leaves and leaves[0] is not None:
                    t = terms[leaves[0]]
                    diffs.append(e1.enc(t) != e2.enc(t))
                    what.append(f'real part of {n}')
            for c in path['conds']:
                for t in (terms[c[1]], terms[c[2]]):
                    diffs.append(e1.enc(t) != e2.enc(t))
                    what.append(f'branch operand {str(t)[:60]}')
            run.obligations += 1
            if not diffs:
                run.discharged += 1
                continue
            s.add(z3.Or(*diffs))
            r = run.check(s)
            if r == z3.unsat:
                run.discharged += 1
                run.case_keys.add(case_id(case))
            elif r == z3.unknown:
                run.inconclusive.append({'case': case_id(case), 'reason': 'EUF query undecided'})
            else:
                # which one depends on a derivative part: syntactic support, then native replay
                bad = []
                for (n, leaves) in res['outputs']:
                    if leaves and leaves[0] is not None:
                        sup = ir.support(terms[leaves[0]]) - rv
                        if sup:
                            bad.append((f'real part of {n}', sorted(sup)))
                for c in path['conds']:
                    sup = (ir.support(terms[c[1]]) | ir.support(terms[c[2]])) - rv
                    if sup:
                        bad.append((f'branch {c[0]}', sorted(sup)))
                shape, kind, pres = spec_of(case)
                reproduced = None
                for attempt in range(8):
                    base = {n: (0.3 + 0.5 * rng.random() if n in rv else rng.uniform(-2, 2)) for n in names}
                    alt = dict(base)
                    for n in names:
                        if n not in rv:
                            alt[n] = rng.uniform(-2, 2)
                    r1 = native_run(shape, kind, pres, base)
                    r2 = native_run(shape, kind, pres, alt)
                    if ('panic' in r1) != ('panic' in r2):
                        reproduced = {'a': base, 'b': alt, 'a_result': str(r1)[:200], 'b_result': str(r2)[:200]}
                        break
                    if 'panic' in r1:
                        continue
                    for (o1, o2) in zip(r1['outputs'], r2['outputs']):
                        if o1[1] and o1[1][0] != o2[1][0]:
                            reproduced = {'a': base, 'b': alt, 'output': o1[0], 're_a': o1[1][0], 're_b': o2[1][0]}
                            break
                    if reproduced is None and r1.get('flags') != r2.get('flags'):
                        reproduced = {'a': base, 'b': alt, 'flags_a': r1.get('flags'), 'flags_b': r2.get('flags')}
                    if reproduced:
                        break
                d = {'case': case_id(case), 'role': 'C06:' + case['kind'], 'depends_on': bad[:3],
                     'obligation': 'real part / branch independent of derivative parts'}
                if reproduced:
                    d['native_f64'] = reproduced
                    run.violations.append(d)
                else:
                    d['reason'] = 'dependence on a derivative part found by the solver did not change a native result'
                    run.inconclusive.append(d)
            # predicate / comparison flags must agree with the float predicate on every feasible path
            bad_flags = [n for (n, b) in res.get('flags', []) if not b]
            if res.get('flags'):
                run.obligations += 1
                if not bad_flags:
                    run.discharged += 1
                else:
                    pctx = PathCtx(run, case, path, terms, [])
                    sv = pctx.base_solver()
                    rr = run.check(sv)
                    if rr == z3.unsat:
                        run.discharged += 1
                        run.infeasible_paths += 1
                    else:
                        assign = model_assignment(sv.model(), names) if rr == z3.sat else {n: Fraction(1) for n in names}
                        fa = {k: float(v) for k, v in assign.items()}
                        nat = native_run(shape_of(case), case['kind'], int(case['pres']), fa)
                        nb = [n for (n, b) in nat.get('flags', []) if not b]
                        d = {'case': case_id(case), 'role': 'C06:' + case['kind'], 'inputs': fa,
                             'obligation': f'predicate/comparison {bad_flags} decided by the real part',
                             'native_f64_disagreeing_flags': nb}
                        if nb:
                            run.violations.append(d)
                        else:
                            d['reason'] = 'flag mismatch on a solver-feasible path did not reproduce natively'
                            run.inconclusive.append(d)
        if len(run.samples) < 3 and case['paths']:
            run.sample({'case': case_id(case), 'paths': len(case['paths']),
                        'query': 'exists two operand assignments equal on all real parts, different on derivative '
                                 'parts, with a different real-part result or a different branch operand? (EUF)'})


def shape_of(case):
    return case['shape']


def c06_e1(run):
    rng = random.Random(run.seed)
    shapes = shapes_for(run.tier)
    specs = []
    un = C01_FUNCS + ['neg', 'inv', 'sph_j0', 'sph_j1', 'sph_j2']
    for sh in shapes:
        full1 = (1 << ngroups(sh)) - 1
        full2 = (1 << (2 * ngroups(sh))) - 1
        full3 = (1 << (3 * ngroups(sh))) - 1
        for f in un:
            specs.append((sh, f'un:{f}', full1))
        specs += [(sh, 'sincos', full1), (sh, 'powf', full1), (sh, 'log', full1), (sh, 'pred', full1)]
        for n in (-3, 0, 1, 2, 7):
            specs.append((sh, f'powi:{n}', full1))
        for op in ('add', 'sub', 'mul', 'div'):
            specs.append((sh, f'bin:{op}', full2))
            specs.append((sh, f'scalar:{op}', full1))
        specs += [(sh, 'atan2', full2), (sh, 'powd', full2), (sh, 'abs_sub', full2), (sh, 'mul_add', full3)]
        if sh in ('Dual', 'Dual2', 'DualVec2', 'DualVecD2', 'Dual2Vec2', 'Dual2VecD2', 'Dual<Dual>', 'Dual2<Dual>'):
            for p in presence_patterns(sh, 2, run.tier, rng, cap=4):
                specs.append((sh, 'cmp', p))
    parallel(run, _c06_chunk, [specs[i:i + 40] for i in range(0, len(specs), 40)])


# ---------------------------------------------------------------------------------------------
# C05 derivative drivers
# ---------------------------------------------------------------------------------------------
def _drv_specs(tier):
    specs = []

    def add(drv, dims, g_per_ret, nrets, extra=''):
        pats = [0, (1 << g_per_ret) - 1] if g_per_ret else [0]
        if g_per_ret > 1:
            pats += [1, (1 << g_per_ret) - 2]
        for pat in sorted(set(pats)):
            one = 0
            for q in range(nrets):
                one |= pat << (q * g_per_ret)
            pres = one | (one << (nrets * g_per_ret))
            specs.append(('-', f'drv:{drv}:{dims}:probe{extra}', pres))
        if nrets > 1:
            # mixed representations across the output components: exactly one component constant
            # (absent derivative part), and exactly one component non-constant
            full = (1 << g_per_ret) - 1
            allp = 0
            for q in range(nrets):
                allp |= full << (q * g_per_ret)
            for q in range(nrets):
                for one in (allp & ~(full << (q * g_per_ret)), full << (q * g_per_ret)):
                    pres = one | (one << (nrets * g_per_ret))
                    specs.append(('-', f'drv:{drv}:{dims}:probe{extra}', pres))
        specs.append(('-', f'drv:{drv}:{dims}:err{extra}', 0))

    for d in ('first', 'second', 'third', 'spd', 'tpd'):
        add(d, '-', 0, 1)
        specs.append(('-', f'drv:{d}:-:cubic', 0))
        specs.append(('-', f'drv:{d}:-:quot', 0))
    for dims in ('s2', 'd2'):
        specs.append(('-', f'drv:gradient:{dims}:quot', 0))
        specs.append(('-', f'drv:hessian:{dims}:quot', 0))
    specs.append(('-', 'drv:jacobian:s2x2:quot', 0))
    specs.append(('-', 'drv:phess:s2x1:quot', 0))
    specs.append(('-', 'drv:phess:d2x2:quot', 0))
    specs.append(('-', 'drv:tpdv:2:quot:0,1,1', 0))
    ns = [1, 2, 3] if tier == 'quick' else [1, 2, 3, 4]
    for st in ('s', 'd'):
        for n in ns:
            add('gradient', f'{st}{n}', 1, 1)
            add('hessian', f'{st}{n}', 2, 1)
            if n <= 2 or tier == 'thorough' and n <= 3:
                specs.append(('-', f'drv:gradient:{st}{n}:cubic', 0))
                specs.append(('-', f'drv:hessian:{st}{n}:cubic', 0))
    jac = [('s1x1', 1), ('s2x3', 3), ('s3x2', 2), ('d2x3', 3)] if tier == 'quick' else \
        [('s1x1', 1), ('s2x3', 3), ('s3x2', 2), ('s2x2', 2), ('s3x1', 1), ('d2x3', 3), ('d3x2', 2), ('d1x2', 2)]
    for dims, m in jac:
        add('jacobian', dims, 1, m)
        if dims in ('s2x3', 's1x1', 'd2x3', 'd1x2', 's2x2'):
            specs.append(('-', f'drv:jacobian:{dims}:cubic', 0))
    ph = ['s1x1', 's2x1', 's2x3', 'd2x2'] if tier == 'quick' else ['s1x1', 's2x1', 's1x2', 's2x2', 's2x3', 'd2x2', 'd2x3']
    for dims in ph:
        add('phess', dims, 3, 1)
        if dims in ('s1x1', 's2x1', 's1x2', 'd2x2', 's2x2'):
            specs.append(('-', f'drv:phess:{dims}:cubic', 0))
    # third_partial_derivative_vec: all index triples for lengths <= 3 (quick: length 2 + samples of 3)
    for n in (1, 2, 3):
        triples = list(itertools.product(range(n), repeat=3))
        if tier == 'quick' and n == 3:
            triples = [(0, 1, 2), (2, 1, 0), (1, 1, 2), (2, 2, 2), (0, 2, 0)]
        for t in triples:
            ts = ','.join(map(str, t))
            specs.append(('-', f'drv:tpdv:{n}:probe:{ts}', 0))
            if n <= 2 or t in ((0, 1, 2), (1, 1, 2)):
                specs.append(('-', f'drv:tpdv:{n}:cubic:{ts}', 0))
        specs.append(('-', f'drv:tpdv:{n}:err:0,0,0', 0))
    return specs


def _c05_chunk(run, specs):
    import sympy as sp
    cases = trace(specs, 'c05', run.seed)
    for case in cases:
        run.cases += 1
        k = case['kind'].split(':')
        drv, dims, mode = k[1], k[2], k[3]
        run.functions.add(drv + ('' if mode != 'err' else ' (try_ error path)'))
        run.instantiations.add(f'{drv}:{dims}')
        if not check_validation(run, case):
            continue
        terms = ir.dag_to_terms(case['dag'])
        for path in case['paths']:
            res = path['result']
            role = f'{run.prop}:{drv}:{mode}'
            if 'panic' in res:
                run.violations.append({'case': case_id(case), 'role': role, 'obligation': 'driver must not panic',
                                       'native_f64': res['panic'][:200]})
                continue
            outs = {n: algebra.leaves_terms(terms, l) for (n, l) in res['outputs']}
            flags = dict(res['flags'])
            run.obligations += 1
            if all(flags.values()):
                run.discharged += 1
            else:
                run.violations.append({'case': case_id(case), 'role': role,
                                       'obligation': 'shape / error-token flags', 'flags': flags})
            if mode == 'err':
                run.paths += 1
                continue
            V = ir.var
            obs = []
            z = lambda t: t if t is not None else ZERO

            def expect(name, want):
                got = outs[name]
                assert len(got) == len(want), (case['kind'], name, len(got), len(want))
                for i, (a, b) in enumerate(zip(got, want)):
                    obs.append((f'{name}#{i}', a, b))

            def unit(cond):
                return ONE if cond else ZERO
            if mode == 'probe':
                # ---- what the closure must receive, and what the driver must hand back
                if drv in ('first', 'second', 'third'):
                    npart = {'first': 2, 'second': 3, 'third': 4}[drv]
                    expect('arg0', [V('x'), ONE] + [ZERO] * (npart - 2))
                    pn = {'first': ['re', 'eps'], 'second': ['re', 'v1', 'v2'], 'third': ['re', 'v1', 'v2', 'v3']}[drv]
                    ret = [V('ret.' + p) for p in pn]
                    expect('out', ret)
                    expect('try_out', ret)
                elif drv == 'spd':
                    expect('arg0', [V('x'), ONE, ZERO, ZERO])
                    expect('arg1', [V('y'), ZERO, ONE, ZERO])
                    ret = [V('ret.' + p) for p in ('re', 'eps1', 'eps2', 'eps1eps2')]
                    expect('out', ret)
                    expect('try_out', ret)
                elif drv in ('tpd', 'tpdv'):
                    pn = ['re', 'eps1', 'eps2', 'eps3', 'eps1eps2', 'eps1eps3', 'eps2eps3', 'eps1eps2eps3']
                    if drv == 'tpd':
                        for q, nm in enumerate('xyz'):
                            expect(f'arg{q}', [V(nm)] + [unit(q == d) for d in range(3)] + [ZERO] * 4)
                    else:
                        n = int(dims)
                        i, j, kk = [int(t) for t in k[4].split(',')]
                        for q in range(n):
                            expect(f'arg{q}', [V(f'x{q}'), unit(q == i), unit(q == j), unit(q == kk)] + [ZERO] * 4)
                    ret = [V('ret.' + p) for p in pn]
                    expect('out', ret)
                    expect('try_out', ret)
                elif drv == 'gradient':
                    n = int(dims[1:])
                    for q in range(n):
                        expect(f'arg{q}', [V(f'x{q}')] + [unit(q == d) for d in range(n)])
                    # the returned parts, absent ones read as zero
                    pres_eps = outs['g']  # placeholders; expected built from names below
                    retl = dict(res['inputs'])['ret']
                    rett = algebra.leaves_terms(terms, retl)
                    expect('f', [rett[0]])
                    expect('g', [z(t) for t in rett[1:]])
                    expect('try_f', [rett[0]])
                    expect('try_g', [z(t) for t in rett[1:]])
                elif drv == 'hessian':
                    n = int(dims[1:])
                    for q in range(n):
                        expect(f'arg{q}', [V(f'x{q}')] + [unit(q == d) for d in range(n)] + [ZERO] * (n * n))
                    rett = algebra.leaves_terms(terms, dict(res['inputs'])['ret'])
                    g = [z(rett[1 + i]) for i in range(n)]
                    H = [z(rett[1 + n + j * n + i]) for i in range(n) for j in range(n)]
                    for pfx in ('', 'try_'):
                        expect(pfx + 'f', [rett[0]])
                        expect(pfx + 'g', g)
                        expect(pfx + 'H', H)
                elif drv == 'jacobian':
                    n, m = [int(t) for t in dims[1:].split('x')]
                    for q in range(n):
                        expect(f'arg{q}', [V(f'x{q}')] + [unit(q == d) for d in range(n)])
                    ins = dict(res['inputs'])
                    rets = [algebra.leaves_terms(terms, ins[f'ret{a}']) for a in range(m)]
                    for pfx in ('', 'try_'):
                        expect(pfx + 'f', [rets[a][0] for a in range(m)])
                        expect(pfx + 'J', [z(rets[a][1 + b]) for a in range(m) for b in range(n)])
                elif drv == 'phess':
                    m, n = [int(t) for t in dims[1:].split('x')]
                    for q in range(m):
                        expect(f'argx{q}', [V(f'x{q}')] + [unit(q == d) for d in range(m)] + [ZERO] * (n + m * n))
                    for q in range(n):
                        expect(f'argy{q}', [V(f'y{q}')] + [ZERO] * m + [unit(q == d) for d in range(n)] + [ZERO] * (m * n))
                    rett = algebra.leaves_terms(terms, dict(res['inputs'])['ret'])
                    fx = [z(rett[1 + i]) for i in range(m)]
                    fy = [z(rett[1 + m + j]) for j in range(n)]
                    fxy = [z(rett[1 + m + n + j * m + i]) for i in range(m) for j in range(n)]
                    for pfx in ('', 'try_'):
                        expect(pfx + 'f', [rett[0]])
                        expect(pfx + 'fx', fx)
                        expect(pfx + 'fy', fy)
                        expect(pfx + 'fxy', fxy)
            else:
                # ---- cubic closure: end-to-end derivative values against sympy
                snames = [n for (n, _v) in res['scalars']]
                coef = [n for n in snames if n.startswith('c')]
                xn = [n for n in snames if not n.startswith(('c', 'q'))]
                xs = [sp.Symbol(n, real=True) for n in xn]
                env = {s: ir.var(s.name) for s in xs}

                def poly(prefix):
                    if mode == 'quot':
                        qp = 'q' + prefix[1:]
                        num = 0
                        lin = 0
                        for cn in snames:
                            if cn.startswith(qp + 'n_'):
                                cs = sp.Symbol(cn, real=True)
                                env[cs] = ir.var(cn)
                                mon = cs
                                for s_, e in zip(xs, cn.split('_')[1:]):
                                    mon = mon * s_ ** int(e)
                                num = num + mon
                            elif cn.startswith(qp + 'l_'):
                                cs = sp.Symbol(cn, real=True)
                                env[cs] = ir.var(cn)
                                idx = cn.split('_')[1]
                                lin = lin + (cs if idx == 'c' else cs * xs[int(idx)])
                        return num / (1 + lin ** 2)
                    p = 0
                    for cn in coef:
                        pf, *ex = cn.split('_')
                        if pf != prefix:
                            continue
                        cs = sp.Symbol(cn, real=True)
                        env[cs] = ir.var(cn)
                        mon = cs
                        for s_, e in zip(xs, ex):
                            mon = mon * s_ ** int(e)
                        p = p + mon
                    return p

                def D(p, *idx):
                    for i in idx:
                        p = sp.diff(p, xs[i])
                    return jets.sympy_to_ir(sp.expand(p) if mode == 'cubic' else sp.together(p), env)
                if drv in ('first', 'second', 'third'):
                    p = poly('c')
                    order = {'first': 1, 'second': 2, 'third': 3}[drv]
                    expect('out', [D(p, *([0] * o)) for o in range(order + 1)])
                elif drv == 'spd':
                    p = poly('c')
                    expect('out', [D(p), D(p, 0), D(p, 1), D(p, 0, 1)])
                elif drv == 'tpd':
                    p = poly('c')
                    expect('out', [D(p), D(p, 0), D(p, 1), D(p, 2), D(p, 0, 1), D(p, 0, 2), D(p, 1, 2), D(p, 0, 1, 2)])
                elif drv == 'tpdv':
                    p = poly('c')
                    i, j, kk = [int(t) for t in k[4].split(',')]
                    expect('out', [D(p), D(p, i), D(p, j), D(p, kk), D(p, i, j), D(p, i, kk), D(p, j, kk),
                                   D(p, i, j, kk)])
                elif drv == 'gradient':
                    p = poly('c')
                    n = len(xs)
                    expect('f', [D(p)])
                    expect('g', [D(p, i) for i in range(n)])
                elif drv == 'hessian':
                    p = poly('c')
                    n = len(xs)
                    expect('f', [D(p)])
                    expect('g', [D(p, i) for i in range(n)])
                    expect('H', [D(p, i, j) for i in range(n) for j in range(n)])
                elif drv == 'jacobian':
                    n, m = [int(t) for t in dims[1:].split('x')]
                    ps = [poly(f'c{a}') for a in range(m)]
                    expect('f', [D(ps[a]) for a in range(m)])
                    expect('J', [D(ps[a], b) for a in range(m) for b in range(n)])
                elif drv == 'phess':
                    m, n = [int(t) for t in dims[1:].split('x')]
                    p = poly('c')
                    expect('f', [D(p)])
                    expect('fx', [D(p, i) for i in range(m)])
                    expect('fy', [D(p, m + j) for j in range(n)])
                    expect('fxy', [D(p, i, m + j) for i in range(m) for j in range(n)])
            pctx = PathCtx(run, case, path, terms, [])
            decide_path(run, case, pctx, obs, role, revars=None, split=False)
        if len(run.samples) < 4 and mode != 'err':
            run.sample({'case': case_id(case), 'mode': mode,
                        'obligations': 'probe: closure arguments are (x_i, unit seed e_i), returned tuple/vector/'
                                       'matrix entries are exactly the returned parts in the documented '
                                       'orientation; cubic: outputs == sympy partial derivatives of the generic cubic',
                        'outputs': [n for (n, _l) in case['paths'][0]['result'].get('outputs', [])]})


def c05(run):
    specs = _drv_specs(run.tier)
    run.bounds = {'input length n': '1..3 (quick) / 1..4 (thorough), static and dynamic',
                  'output length m': '1..3, m != n included', 'index triples': 'all for length <= 2 (quick), '
                  '<= 3 (thorough)', 'outside': 'n = 0, n > 4, m > 3 (the drivers are dimension-generic nalgebra '
                  'iteration); closures other than the probe and the generic cubic (covered by C03 + the probe)'}
    parallel(run, _c05_chunk, [specs[i:i + 12] for i in range(0, len(specs), 12)])


EXPLAIN['C05'] = ('each of the 20 drivers is executed over the symbolic scalar with a probe closure (asserting the '
                  'seeds it receives, returning fresh variables in every part) and with a generic cubic with '
                  'symbolic coefficients; z3 decides every returned entry against the expected variable / the '
                  'sympy partial derivative; try_ variants: error token returned unchanged, Ok values identical')


def c06(run):
    c06_e1(run)
    from . import kani
    kani.run_group(run, 'C06')


def c09(run):
    c09_e1(run)
    from . import kani
    kani.run_group(run, 'C09')


EXPLAIN['C06'] = ('E1: for every operation and path, an EUF query over two copies of the traced DAG (real parts '
                  'shared, derivative parts independent) shows that no real-part result and no branch operand '
                  'depends on a derivative part; predicate/comparison agreement flags hold on every feasible path. '
                  'E2 (Kani): comparison operators, predicates and min/max/clamp on f64 bit patterns incl. NaN, '
                  'signed zeros and infinities; plain-float interface forwards to std (UF stubs)')
EXPLAIN['C09'] = ('E1: powi for listed exponents incl. +-2^30, powf with a symbolic real exponent on every '
                  'special-case path, powd, all against x^n (sympy) for all bases in the domain; E2 (Kani): all '
                  'i32 exponents |n| <= 2^30 for the integer coefficient arithmetic')


def c13(run):
    from . import kani_run
    kani_run.run_group(run, 'C13')
    run.bounds = {'types': 'Dual, Dual2, DualVec<2> static and dynamic, Dual2Vec<2>; (f32,f64) pairs',
                  'values': 'all bit patterns (NaN, +-0, subnormal, infinities included)',
                  'outside': 'dimensions > 2; leak freedom (no leak checker reachable through Kani); '
                             'nalgebra::convert on matrices is exercised for SVector<_,2> only'}


EXPLAIN['C13'] = ('Kani/CBMC harnesses on the compiled f32/f64 instantiations with fully symbolic bit patterns and '
                  'presence flags: widening preserves bits, narrowing back is the identity, checked narrowing '
                  'succeeds iff is_in_subset for every presence pattern, float lift/extract; Kani\'s pointer, '
                  'bounds and initialisation-related checks cover the MaybeUninit mapping loops')


def c11(run):
    from . import kani_run
    kani_run.run_group(run, 'C11')
    c11_e1(run)
    run.bounds = {'types': 'Dual64, Dual32, Dual2_64, DualVec<f64,2> static and dynamic, Dual2Vec<f64,2>',
                  'outside': 'methods that panic by design (floor, ceil, round, trunc, fract); SIMD lanes > 1 '
                             '(only the single-lane view exists for dual numbers over plain floats)'}


def c11_e1(run):
    run.notes.append('E1 part (field methods forward to the generic operations) not registered yet')


EXPLAIN['C11'] = ('Kani: the RealField constants of the field-compatible types have the bits of the std constants '
                  'and no derivative parts; selection methods and the single-lane SIMD view keep every part; '
                  'E1: field methods are the generic dual operations (EUF-identical traces)')


def c10(run):
    from . import kani_run
    kani_run.run_group(run, 'C10')
    run.bounds = {'points': 'powi n in 0..6 and powf (integer n in 0..8, non-integer n above the order, n < 64) at '
                            '+-0; atan2 on both axes with the non-zero coordinate in {+-1/2,+-1,+-2,+-4}; '
                            'exp_m1, ln_1p at +-0; sph_j0/1/2 at +-0, +-2^-60, +-2^-1074; bessel_j0/1/2 at +-0, '
                            '+-2^-1074',
                  'parts': 'symbolic small integers or finite floats where stated in the harness, concrete '
                           '(1, 1/2, 1/4) for the third-order Bessel / spherical Bessel harnesses',
                  'outside': 'arbitrary floating-point neighbours of the points (only the listed ones); '
                             'types beyond Dual, Dual2, Dual3, HyperDual, HyperHyperDual, DualVec<2> over f64 '
                             '(and Dual<Dual64> for atan2 on the axes)'}
    run.assumptions += ['libm functions are uninterpreted functions knowing only exact IEEE facts at the visited '
                        'points (sin(+-0)=+-0, cos(0)=1, exp(0)=1, exp_m1(0)=0, ln_1p(0)=0, atan(0)=0, '
                        'powf/powi special cases at a zero base or zero exponent)']


EXPLAIN['C10'] = ('Kani/CBMC harnesses at the enumerated special points with symbolic derivative parts: every part '
                  'of the result is finite and equals the mathematical value (exactly, or within 1e-9 absolute '
                  'where the repository uses approximations); IEEE semantics incl. signed zeros and denormals')


# ---------------------------------------------------------------------------------------------
# C03 / C04: programs
# ---------------------------------------------------------------------------------------------
import sympy as _sp


class ProgGen:
    """seeded random expression programs over the generic interface, as RPN token list for the
    Rust evaluator and as a sympy expression (the scalar function the program computes). Only
    total compositions are generated (partial functions are applied to 1+u^2 and the like), so
    every intermediate value lies inside the operations' domains for all real inputs."""
    UN_TOTAL = ['sin', 'cos', 'exp', 'tanh', 'sinh', 'cosh', 'atan', 'asinh', 'exp_m1', 'exp2', 'neg']
    UN_POS = ['ln', 'sqrt', 'cbrt', 'recip', 'inv', 'log2', 'log10', 'ln_1p', 'powi:-2', 'powf:1.5', 'powf:-0.5']

    def __init__(self, rng, nvars):
        self.rng, self.nvars = rng, nvars
        self.xs = [_sp.Symbol(f'x{i}', real=True) for i in range(nvars)]
        self.lets = []   # sympy exprs of earlier stack entries

    def un_sym(self, f, u):
        sp = _sp
        table = {'sin': sp.sin, 'cos': sp.cos, 'exp': sp.exp, 'tanh': sp.tanh, 'sinh': sp.sinh, 'cosh': sp.cosh,
                 'atan': sp.atan, 'asinh': sp.asinh, 'ln': sp.log, 'sqrt': sp.sqrt}
        if f in table:
            return table[f](u)
        if f == 'exp_m1':
            return sp.exp(u) - 1
        if f == 'exp2':
            return 2 ** u
        if f == 'neg':
            return -u
        if f == 'cbrt':
            return u ** sp.Rational(1, 3)
        if f in ('recip', 'inv'):
            return 1 / u
        if f == 'log2':
            return sp.log(u) / sp.log(2)
        if f == 'log10':
            return sp.log(u) / sp.log(10)
        if f == 'ln_1p':
            return sp.log(1 + u)
        if f.startswith('powi:'):
            return u ** int(f[5:])
        if f.startswith('powf:'):
            return u ** sp.Rational(f[5:])
        raise ValueError(f)

    def const(self):
        return self.rng.choice([0.5, 1.5, 2.0, -0.75, 3.0, 0.25])

    def expr(self, depth):
        """returns (tokens, sympy expr)"""
        r = self.rng
        if depth == 0 or r.random() < 0.15:
            c = r.random()
            if self.lets and c < 0.3:
                j = r.randrange(len(self.lets))
                return [f'dup:{j}'], self.lets[j]
            if c < 0.9:
                i = r.randrange(self.nvars)
                return [f'x{i}'], self.xs[i]
            v = self.const()
            return [f'k{v}'], _sp.Rational(v)
        kind = r.choice(['un', 'un', 'unpos', 'bin', 'bin', 'sc', 'div', 'atan2', 'powd', 'muladd', 'isum', 'iprod'])
        if kind == 'un':
            f = r.choice(self.UN_TOTAL)
            t, e = self.expr(depth - 1)
            return t + [f], self.un_sym(f, e)
        if kind == 'unpos':
            f = r.choice(self.UN_POS)
            t, e = self.expr(depth - 1)
            return t + ['sq1p', f], self.un_sym(f, 1 + e * e)
        if kind == 'bin':
            op = r.choice(['add', 'sub', 'mul', 'addas', 'subas', 'mulas'])
            t1, e1 = self.expr(depth - 1)
            self.lets.append(e1)   # the left operand stays on the stack while the right one is built
            t2, e2 = self.expr(depth - 1)
            self.lets.pop()
            return t1 + t2 + [op], {'add': e1 + e2, 'sub': e1 - e2, 'mul': e1 * e2}[op[:3]]
        if kind == 'sc':
            op = r.choice(['scadd', 'scsub', 'scmul', 'scdiv', 'powi:2', 'powi:3'])
            t, e = self.expr(depth - 1)
            if op.startswith('powi'):
                return t + [op], e ** int(op[5:])
            c = self.const()
            q = _sp.Rational(c)
            return t + [f'{op}:{c}'], {'scadd': e + q, 'scsub': e - q, 'scmul': e * q, 'scdiv': e / q}[op]
        if kind in ('div', 'atan2'):
            t1, e1 = self.expr(depth - 1)
            self.lets.append(e1)
            t2, e2 = self.expr(depth - 1)
            self.lets.pop()
            d = 1 + e2 * e2
            if kind == 'div':
                return t1 + t2 + ['sq1p', r.choice(['div', 'divas'])], e1 / d
            return t1 + t2 + ['sq1p', 'atan2'], _sp.atan2(e1, d)
        if kind == 'powd':
            t1, e1 = self.expr(depth - 1)
            self.lets.append(1 + e1 * e1)
            t2, e2 = self.expr(depth - 1)
            self.lets.pop()
            return t1 + ['sq1p'] + t2 + ['powd'], _sp.exp(e2 * _sp.log(1 + e1 * e1))
        if kind == 'muladd':
            t1, e1 = self.expr(depth - 1)
            self.lets.append(e1)
            t2, e2 = self.expr(depth - 1)
            self.lets.append(e2)
            t3, e3 = self.expr(depth - 1)
            self.lets.pop()
            self.lets.pop()
            return t1 + t2 + t3 + ['muladd'], e1 * e2 + e3
        k = 3 if kind == 'isum' else 2
        ts, es = [], []
        for _ in range(k):
            t, e = self.expr(depth - 1)
            ts += t
            es.append(e)
            self.lets.append(e)
        for _ in range(k):
            self.lets.pop()
        if kind == 'isum':
            return ts + ['isum:3'], es[0] + es[1] + es[2]
        return ts + ['iprod:2'], es[0] * es[1]


IDIOMS = [
    # accumulators that start from a constant (absent derivative parts) and are updated in place
    (2, 'k1.0,x0,x1,mul,subas,x1,sin,subas'),
    (1, 'k0.5,x0,sq1p,ln,addas,x0,exp,mulas'),
    (2, 'k2.0,x0,x1,sub,sq1p,divas,x1,subas'),
    (1, 'x0,k3.0,subas,x0,mul,k1.5,x0,cos,mulas,sub'),
    # two-argument arctangent on its whole domain (x, y) != (0, 0), both axes included
    (2, 'x0,x1,atan2,x1,mul'),
]


def idiom_programs(max_vars):
    out = []
    for nv, rpn in IDIOMS:
        if nv > max_vars:
            continue
        xs = [_sp.Symbol(f'x{i}', real=True) for i in range(nv)]
        st = []
        for tok in rpn.split(','):
            if tok.startswith('x') and tok[1:].isdigit():
                st.append(xs[int(tok[1:])])
            elif tok.startswith('k'):
                st.append(_sp.Rational(tok[1:]))
            elif tok in ('add', 'addas'):
                b = st.pop(); a = st.pop(); st.append(a + b)
            elif tok in ('sub', 'subas'):
                b = st.pop(); a = st.pop(); st.append(a - b)
            elif tok in ('mul', 'mulas'):
                b = st.pop(); a = st.pop(); st.append(a * b)
            elif tok in ('div', 'divas'):
                b = st.pop(); a = st.pop(); st.append(a / b)
            elif tok == 'sq1p':
                a = st.pop(); st.append(1 + a * a)
            elif tok == 'atan2':
                b = st.pop(); a = st.pop(); st.append(_sp.atan2(a, b))
            elif tok == 'sin':
                st.append(_sp.sin(st.pop()))
            elif tok == 'cos':
                st.append(_sp.cos(st.pop()))
            elif tok == 'exp':
                st.append(_sp.exp(st.pop()))
            elif tok == 'ln':
                st.append(_sp.log(st.pop()))
            else:
                raise ValueError(tok)
        out.append((nv, rpn.split(','), st[0], xs))
    return out


def gen_programs(seed, count, max_vars=3, max_depth=4, single_path=False):
    out = [q for q in idiom_programs(max_vars) if not (single_path and 'atan2' in q[1])]
    count += len(out)
    rng = random.Random(1000 + seed)
    tries = 0
    while len(out) < count and tries < count * 20:
        tries += 1
        nv = rng.choice([1, 1, 2, 2, 3][:2 + max_vars])
        nv = min(nv, max_vars)
        g = ProgGen(rng, nv)
        depth = rng.randrange(2, max_depth + 1)
        toks, e = g.expr(depth)
        if single_path and 'atan2' in toks:
            continue
        used = sum(1 for i in range(nv) if any(t == f'x{i}' for t in toks))
        if used < nv or len(toks) < 4 or len(toks) > 28:
            continue
        out.append((nv, toks, e, g.xs))
    return out


def prog_kind(nv, toks):
    return 'prog;%d;%s' % (nv, ','.join(toks))


def _c03_chunk(run, items):
    """items: list of (shape, nv, toks, expr, xs)"""
    specs = [(sh, prog_kind(nv, toks), (1 << (ngroups(sh) * nv)) - 1) for (sh, nv, toks, e, xs) in items]
    cases = trace(specs, 'c03', run.seed)
    for case, (sh, nv, toks, expr, xs) in zip(cases, items):
        run.cases += 1
        run.instantiations.add(sh + '<S>')
        for t in toks:
            run.functions.add(t.split(':')[0] if not t.startswith(('x', 'k', 'dup')) else 'leaf')
        if not check_validation(run, case):
            continue
        terms = ir.dag_to_terms(case['dag'])
        levels = case['levels']
        for path in case['paths']:
            res = path['result']
            if 'panic' in res:
                run.inconclusive.append({'case': case_id(case), 'reason': 'panic ' + res['panic'][:80]})
                continue
            ins = [algebra.leaves_terms(terms, l) for (_n, l) in res['inputs']]
            env = {x: a[0] for x, a in zip(xs, ins)}
            cache = {}

            def deriv(alpha, cache=cache, env=env):
                if alpha not in cache:
                    cache[alpha] = jets.sympy_to_ir(jets.sym_deriv(expr, tuple(xs), alpha), env)
                return cache[alpha]
            try:
                oracle = jets.compose(levels, ins, deriv)
            except ir.Inconclusive as e:
                run.inconclusive.append({'case': case_id(case), 'reason': str(e)})
                continue
            y = algebra.leaves_terms(terms, res['outputs'][0][1])
            obs = [(f'y#{i}', a, b) for i, (a, b) in enumerate(zip(y, oracle))]
            assume = []
            if ','.join(toks) == 'x0,x1,atan2,x1,mul':
                assume = [('or', ('ne', ins[0][0], ZERO), ('ne', ins[1][0], ZERO))]
            pctx = PathCtx(run, case, path, terms, assume)
            decide_path(run, case, pctx, obs, 'C03:program', revars=revars_of(res, terms))
        if len(run.samples) < 4:
            run.sample({'shape': sh, 'program_rpn': ','.join(toks), 'scalar_function': str(expr)[:300],
                        'obligation': 'every part == Faa di Bruno composition of the sympy partial derivatives '
                                      'of the scalar function with the inputs\' parts (all parts symbolic)'})


def c03_programs(run, shapes, count, max_depth):
    progs = gen_programs(run.seed, count, max_depth=max_depth)
    items = []
    for (nv, toks, e, xs) in progs:
        for sh in shapes:
            order = jets.max_order(tuple(_levels_of(sh)))
            if order * nv > 6 and len(toks) > 14:
                continue   # keep the sympy derivative tables tractable: bound stated in evidence
            items.append((sh, nv, toks, e, xs))
    chunks = [items[i:i + 1] for i in range(0, len(items), 1)]
    parallel(run, _c03_chunk, chunks, chunk_timeout=150 if run.tier == 'quick' else 300)
    return progs


_LEVELS = {}


def _levels_of(shape):
    if not _LEVELS:
        build_symtrace()
        import subprocess
        for sh in ngroups_all():
            pass
    if shape not in _LEVELS:
        cases = trace([(shape, 'un:neg', 0)], 'lv')
        _LEVELS[shape] = cases[0]['levels']
    return _LEVELS[shape]


def ngroups_all():
    ngroups('Dual')
    return list(NGROUPS)


def drop_undecided(run, max_fraction=0.25):
    """Obligations the solver could not decide inside the cap (unknown / wall-clock limit), or whose
    model is an artefact of the function abstraction (the native replay agrees with the oracle to
    rounding), are removed from the claim and listed as undecided in the evidence; they are neither
    passes nor violations. If more than max_fraction of the work is undecided the check stays
    inconclusive (the machinery, not the code, needs attention)."""
    und = [x for x in run.inconclusive if x.get('reason') in (
        'solver model did not reproduce natively', 'solver unknown/timeout') or
        'exceeded the wall-clock limit' in x.get('reason', '') or
        'died without a result' in x.get('reason', '') or 'MemoryError' in x.get('reason', '')]
    other = [x for x in run.inconclusive if x not in und]
    if len(und) <= max_fraction * max(run.obligations, 1):
        run.inconclusive = other
        run.obligations -= sum(1 for x in und if 'obligation' in x)
        run.obligations = max(run.obligations, run.discharged)
        run.notes.append({'undecided_removed_from_claim': len(und),
                          'undecided_items': sorted(set(str(x.get('case', x.get('program', x.get('reason', '?'))))
                                                        .split('@')[0][:120] for x in und))[:40]})


def c03(run):
    shapes = (['Dual2', 'Dual3', 'HyperDual', 'HyperHyperDual', 'DualVec2', 'Dual2<Dual>'] if run.tier == 'quick'
              else SC + ['DualVec2', 'Dual2Vec2', 'HyperDualVec22', 'DualVecD2'] + NEST_ALL[:6])
    count = 10 if run.tier == 'quick' else 30
    run.timeout_ms = 3000 if run.tier == 'quick' else 8000
    c03_programs(run, shapes, count, 3 if run.tier == 'quick' else 4)
    drop_undecided(run)
    run.bounds = {'programs': f'{count} seeded random expression DAGs (seed {run.seed}): <= 3 variables, depth <= '
                              f'{3 if run.tier == "quick" else 4}, <= 28 tokens, sharing through repeated inputs '
                              'and re-used sub-expressions, all operation kinds of the interface',
                  'inductive step': 'every single operation maps arbitrary operand jets to the algebra\'s result: '
                                    'decided for all values by the C01, C02, C08, C09 obligations; induction over '
                                    'the DAG is a stated paper argument',
                  'outside': 'the first-order rounding bound; programs whose obligations time out are reported '
                             'as undecided, not passed'}


EXPLAIN['C03'] = ('bounded program exploration: seeded random programs are run through a generic evaluator over the '
                  'real dual types at the symbolic scalar with fully general operands; for each program z3 decides '
                  'every part against the composition of the sympy partial derivatives of the scalar function the '
                  'program computes, for all real inputs; together with the per-operation obligations (C01, C02, '
                  'C08, C09) as the inductive step')


# ---------------------------------------------------------------------------------------------
# C04 agreement of types, nestings, storage variants
# ---------------------------------------------------------------------------------------------
C04_SWEEP = ([(1, ['x0', f], None, None) for f in
              ('sin', 'cos', 'tan', 'exp', 'exp2', 'exp_m1', 'sinh', 'cosh', 'tanh', 'atan', 'asinh', 'neg',
               'asin', 'acos', 'atanh', 'powi:3', 'powi:4')] +
             [(1, ['x0', 'sq1p', f], None, None) for f in
              ('ln', 'log2', 'log10', 'ln_1p', 'sqrt', 'cbrt', 'recip', 'acosh', 'powi:-2', 'powf:2.5',
               'powf:-0.5', 'powf:3.0')] +
             [(2, t.split(','), None, None) for t in
              ('x0,x1,mul', 'x0,x1,sq1p,div', 'x0,sq1p,x1,powd', 'x0,x1,x0,muladd', 'x0,x1,sq1p,divas',
               'x0,x1,mulas')])
C04_TYPES_QUICK = ['Dual', 'Dual2', 'Dual3', 'HyperDual', 'HyperHyperDual', 'DualVec2', 'Dual2Vec2', 'Dual2Vec1',
                   'HyperDualVec11', 'HyperDualVec22', 'Dual<Dual>', 'Dual<Dual<Dual>>', 'Dual2<Dual>']
C04_TYPES_ALL = C04_TYPES_QUICK + ['DualVec1', 'DualVec3', 'HyperDualVec21', 'HyperDualVec12', 'HyperDualVec23',
                                   'Dual<Dual2>', 'HyperDual<Dual>', 'Dual3<Dual>', 'DualVec2<Dual>',
                                   'Dual<DualVec2>']
STORAGE_PAIRS = [('DualVec1', 'DualVecD1'), ('DualVec2', 'DualVecD2'), ('DualVec3', 'DualVecD3'),
                 ('Dual2Vec1', 'Dual2VecD1'), ('Dual2Vec2', 'Dual2VecD2'), ('HyperDualVec11', 'HyperDualVecD11'),
                 ('HyperDualVec22', 'HyperDualVecD22'), ('HyperDualVec23', 'HyperDualVecD23'),
                 ('DualVec4', 'DualVecD4'), ('DualVec6', 'DualVecD6'), ('Dual2Vec3', 'Dual2VecD3'),
                 ('Dual2Vec4', 'Dual2VecD4'), ('HyperDualVec33', 'HyperDualVecD33')]


def _direction_maps(dirs, nv, rng):
    """assignments of a type's directions to the program's variables"""
    dirs = sorted(dirs)
    maps = []
    if dirs:
        maps.append({d: 0 for d in dirs})
        if nv > 1 or len(dirs) > 1:
            maps.append({d: i % nv for i, d in enumerate(dirs)})
            maps.append({d: (len(dirs) - 1 - i) % nv for i, d in enumerate(dirs)})
    uniq = []
    for m in maps:
        if m not in uniq:
            uniq.append(m)
    return uniq


def _c04_chunk(run, progs):
    types = C04_TYPES_QUICK if run.tier == 'quick' else C04_TYPES_ALL
    rng = random.Random(run.seed)
    for (nv, toks, expr, xs) in progs:
        specs = [(sh, prog_kind(nv, toks), (1 << (ngroups(sh) * nv)) - 1) for sh in types]
        cases = trace(specs, 'c04', run.seed)
        table = {}   # key (sorted tuple of var indices) -> list of (label, term, case, assign)
        for case in cases:
            run.cases += 1
            run.instantiations.add(case['shape'] + '<S>')
            if not check_validation(run, case):
                continue
            if len(case['paths']) != 1 or 'panic' in case['paths'][0]['result']:
                run.inconclusive.append({'case': case_id(case), 'reason': 'program has more than one path'})
                continue
            terms = ir.dag_to_terms(case['dag'])
            res = case['paths'][0]['result']
            leaves = jets.leaves_of(tuple(case['levels']))
            alld = set(d for lf in leaves for d in lf.dirs)
            ins = [algebra.leaves_terms(terms, l) for (_n, l) in res['inputs']]
            y = algebra.leaves_terms(terms, res['outputs'][0][1])
            for dmap in _direction_maps(alld, nv, rng):
                mapping = {}
                assign = {}
                for q in range(nv):
                    for lf, t in zip(leaves, ins[q]):
                        if t is None or t[0] != 'var':
                            continue
                        if lf.k == 0:
                            mapping[t[1]] = ir.var(f'X{q}')
                        elif lf.k == 1 and dmap[lf.dirs[0]] == q:
                            mapping[t[1]] = ONE
                            assign[t[1]] = 1.0
                        else:
                            mapping[t[1]] = ZERO
                            assign[t[1]] = 0.0
                cache = {}
                for li, (lf, t) in enumerate(zip(leaves, y)):
                    key = tuple(sorted(dmap[d] for d in lf.dirs))
                    spec = ir.subst(t, mapping, cache) if t is not None else ZERO
                    table.setdefault(key, []).append((f"{case['shape']}.{lf.path}", spec, case, dict(assign), li))
        # every way of obtaining the same partial derivative must give the same function of X0..Xn
        for key, entries in sorted(table.items()):
            ref = entries[0]
            enc = ir.RealEnc()
            pairs = []
            for e in entries[1:]:
                pairs.append((e, enc.enc(e[1]), enc.enc(ref[1])))
            base = list(enc.axioms)
            enc.ln_const_axioms()
            base = list(enc.axioms)
            lemmas = []
            for (constraint, what) in enc.defs:
                s = run.solver()
                s.add(*base)
                s.add(*lemmas)
                s.add(z3.Not(constraint))
                if run.check(s) == z3.unsat:
                    lemmas.append(constraint)
            for (e, l, r) in pairs:
                run.obligations += 1
                if l.same(r):
                    run.discharged += 1
                    run.queries += 1
                    continue
                s = run.solver()
                s.add(*base)
                s.add(*lemmas)
                s.add(z3.Not(ir.q_eq_normalised(l, r)))
                rr = run.check(s)
                if rr == z3.unsat:
                    run.discharged += 1
                    run.case_keys.add(f'{e[0]}~{ref[0]}')
                    continue
                if rr == z3.unknown:
                    run.inconclusive.append({'program': ','.join(toks), 'derivative': key, 'a': e[0], 'b': ref[0],
                                             'reason': 'solver unknown/timeout'})
                    continue
                # replay: native runs of both types at the model point with the unit seeds
                m = s.model()
                pt = {}
                for q in range(nv):
                    v = m.eval(z3.Real(f'X{q}'), model_completion=True)
                    try:
                        pt[q] = float(v.numerator_as_long()) / float(v.denominator_as_long())
                    except Exception:
                        pt[q] = float(v.approx(20).numerator_as_long()) / float(v.approx(20).denominator_as_long())
                vals = []
                for ent in (e, ref):
                    case = ent[2]
                    a = dict(ent[3])
                    leaves = jets.leaves_of(tuple(case['levels']))
                    r0 = case['paths'][0]['result']
                    for q in range(nv):
                        for lf, nid in zip(leaves, r0['inputs'][q][1]):
                            if lf.k == 0:
                                a[case['dag'][nid][1]] = pt[q]
                    nat = native_run(case['shape'], case['kind'], int(case['pres']), a)
                    v = nat['outputs'][0][1][ent[4]] if 'outputs' in nat else None
                    vals.append(None if v is None else float(v))
                d = {'program': ','.join(toks), 'derivative_wrt': key, 'a': e[0], 'b': ref[0], 'point': pt,
                     'native_f64': vals, 'role': 'C04:agreement'}
                if vals[0] is not None and vals[1] is not None and \
                        abs(vals[0] - vals[1]) > 1e-7 * max(1.0, abs(vals[0]), abs(vals[1])):
                    run.violations.append(d)
                else:
                    d['reason'] = 'solver model did not reproduce natively'
                    run.inconclusive.append(d)
        if len(run.samples) < 3:
            run.sample({'program_rpn': ','.join(toks), 'derivative_keys': [list(k) for k in sorted(table)][:8],
                        'ways_per_key': {str(list(k)): [e[0] for e in v][:8] for k, v in sorted(table.items())[:4]}})


def _c04_storage_chunk(run, args):
    progs, pairs = args
    for (nv, toks, expr, xs) in progs:
        for (a, b) in pairs:
            specs = [(sh, prog_kind(nv, toks), (1 << (ngroups(sh) * nv)) - 1) for sh in (a, b)]
            ca, cb = trace(specs, 'c04s', run.seed)
            run.cases += 2
            if not (check_validation(run, ca) and check_validation(run, cb)):
                continue
            ta, tb = ir.dag_to_terms(ca['dag']), ir.dag_to_terms(cb['dag'])
            ya = algebra.leaves_terms(ta, ca['paths'][0]['result']['outputs'][0][1])
            yb = algebra.leaves_terms(tb, cb['paths'][0]['result']['outputs'][0][1])
            run.obligations += 1
            n = euf_identical(run, list(zip(ya, yb)))
            if n == len(ya) and len(ya) == len(yb):
                run.discharged += 1
                run.case_keys.add(f'{a}=={b}:{",".join(toks)[:40]}')
            else:
                run.violations.append({'role': 'C04:static-vs-dynamic', 'a': a, 'b': b, 'program': ','.join(toks),
                                       'obligation': 'statically and dynamically sized variants are the same '
                                                     'operation sequence (bit-identical results)',
                                       'identical_leaves': n, 'leaves': len(ya)})


def c04(run):
    count = 8 if run.tier == 'quick' else 60
    progs = gen_programs(run.seed + 7, count, max_vars=2, max_depth=3, single_path=True)
    # systematic sweep: every single-path operation of the interface once on its own, so that a slip
    # confined to one function and one type combination (e.g. only nested types) meets every type
    progs = C04_SWEEP + progs
    parallel(run, _c04_chunk, [progs[i:i + 1] for i in range(len(progs))],
             chunk_timeout=150 if run.tier == 'quick' else 600)
    drop_undecided(run)
    pairs = STORAGE_PAIRS[:5] if run.tier == 'quick' else STORAGE_PAIRS
    sp = progs[:4] if run.tier == 'quick' else progs[:20]
    parallel(run, _c04_storage_chunk, [(sp[i:i + 1], pairs) for i in range(len(sp))])
    # NDERIV of every (nested) type is the sum over its levels: ground facts read from the compiled crate
    import subprocess
    out = subprocess.run([BIN, 'nderiv'], stdout=subprocess.PIPE, text=True).stdout
    per = {'Dual': 1, 'Dual2': 2, 'Dual3': 3, 'HyperDual': 2, 'HyperHyperDual': 3, 'DualVec': 1, 'Dual2Vec': 2,
           'HyperDualVec': 2}
    for line in out.splitlines():
        sh, n = line.split('\t')
        if sh == 'Real':
            continue
        want = sum(per[l.split(':')[0]] for l in _levels_of(sh))
        run.obligations += 1
        s = run.solver('euf')
        s.add(z3.IntVal(int(n)) != z3.IntVal(want))
        if run.check(s) == z3.unsat:
            run.discharged += 1
        else:
            run.violations.append({'role': 'C04:NDERIV', 'type': sh, 'NDERIV': int(n), 'sum_over_levels': want})
    run.bounds = {'programs': f'{count} seeded random programs, <= 2 variables, depth <= 3, plus the systematic '
                              f'sweep of {len(C04_SWEEP)} single-operation programs (every single-path unary '
                              'function, integer/real powers, product, quotient, powd, mul_add, in-place forms)',
                  'types': 'all listed scalar, vector (dims 1..3), nested (depth <= 3) types; every assignment of '
                           'a type\'s directions to the variables from three systematic maps',
                  'static vs dynamic': 'dims 1..3, EUF-identical traces',
                  'outside': 'f32 vs f64 agreement to f32 accuracy (a rounding statement; the generic body is '
                             'shared); dimensions 4..6'}


EXPLAIN['C04'] = ('for each seeded program every type/seeding that exposes the same partial derivative yields a '
                  'traced term in the variables X0..Xn after substituting the unit seeds; z3 decides pairwise '
                  'equality of these terms for all real points (no oracle involved); static vs dynamic storage: '
                  'EUF-identical traces; NDERIV constants read from the compiled crate')


# ---------------------------------------------------------------------------------------------
# C12 linear algebra (the crate's LU over dual entries)
# ---------------------------------------------------------------------------------------------
def _alg_mul(levels, a, b):
    """product of two jets in the type's algebra (oracle side)"""
    return jets.compose(levels, [a, b], jets.func_deriv('mul', [a[0], b[0]])) if levels else [ir.mul(a[0], b[0])]


def _alg_add(a, b):
    return [ir.add(x if x is not None else ZERO, y if y is not None else ZERO) for x, y in zip(a, b)]


def _c12_jacobi(run, case):
    """jacobi_eigenvalue on a symmetric n x n matrix with dual entries: on every feasible path of
    the routine the returned (lambda, V) satisfy A V = V diag(lambda) and V^T V = I in every part
    (exact real arithmetic), and the eigenvalues' real parts ascend."""
    run.cases += 1
    k = case['kind'].split(';')
    n = int(k[1])
    run.functions.add(f'linalg::jacobi_eigenvalue (n={n}, max_iter={k[2]})')
    run.instantiations.add(f"jacobi_eigenvalue<{case['shape']}<S>,S>")
    if not check_validation(run, case):
        return
    if case.get('truncated'):
        run.inconclusive.append({'case': case_id(case), 'reason': 'path enumeration truncated'})
        return
    terms = ir.dag_to_terms(case['dag'])
    levels = case['levels']
    nleaf = len(jets.leaves_of(tuple(levels))) if levels else 1
    paths_names = case['paths_names'] or ['']

    def in_leaves(nm):
        if not levels:
            return [ir.var(nm)]
        return [ir.var(nm + ('.' + p if p else '')) for p in paths_names]
    A = [[in_leaves(f'A{min(i, j)}{max(i, j)}') for j in range(n)] for i in range(n)]
    revars = set(A[i][j][0][1] for i in range(n) for j in range(n))
    z = lambda l: [t if t is not None else ZERO for t in l]
    role = 'C12:jacobi'
    first = True
    # native replay of an identity: the same left-hand side over fresh variables standing for the
    # native run's outputs (V, lambda) and inputs (A), evaluated exactly at the native values
    lnames = paths_names if levels else ['']
    fresh = lambda nm: [ir.var(f'@{nm}' + ('.' + p if p else '')) for p in lnames]
    Vs = [[fresh(f'V{i}{j}') for j in range(n)] for i in range(n)]
    ls = [fresh(f'l{i}') for i in range(n)]
    sym_lhs = {}
    for i in range(n):
        for j in range(n):
            acc = [ZERO] * nleaf
            acc2 = [ZERO] * nleaf
            for kk in range(n):
                acc = _alg_add(acc, _alg_mul(levels, A[i][kk], Vs[kk][j]))
                acc2 = _alg_add(acc2, _alg_mul(levels, Vs[kk][i], Vs[kk][j]))
            rr = _alg_mul(levels, Vs[i][j], ls[j])
            for li in range(nleaf):
                sym_lhs[f'AV{i}{j}#{li}'] = (acc[li], rr[li])
                sym_lhs[f'VtV{i}{j}#{li}'] = (acc2[li], (ONE if i == j else ZERO) if li == 0 else ZERO)

    def native_lhs(res, base, fa):
        import mpmath
        env = {kk: Fraction(v) for kk, v in fa.items()}
        for (nm, leaves) in res['outputs']:
            for pth, v in zip(lnames, leaves):
                env[f'@{nm}' + ('.' + pth if pth else '')] = Fraction(float(v)) if v is not None else Fraction(0)
        try:
            cache = {}
            return (float(ir.mp_eval(sym_lhs[base][0], env, cache)), float(ir.mp_eval(sym_lhs[base][1], env, cache)))
        except (ValueError, OverflowError, ZeroDivisionError):
            return (float('nan'), float('nan'))
    case['_native_lhs'] = native_lhs
    offdiag_re = [A[i][j][0][1] for i in range(n) for j in range(i + 1, n)]
    for path in case['paths']:
        res = path['result']
        if 'panic' in res:
            pctx = PathCtx(run, case, path, terms, [])
            run.paths += 1
            if decide_infeasible(run, case, pctx, 'panic path: ' + res['panic'][:60], role):
                run.infeasible_paths += 1
            continue
        outs = {nm: z(algebra.leaves_terms(terms, l)) for (nm, l) in res['outputs']}
        lam = [outs[f'l{i}'] for i in range(n)]
        V = [[outs[f'V{i}{j}'] for j in range(n)] for i in range(n)]
        obs = []
        for i in range(n):
            for j in range(n):
                acc = [ZERO] * nleaf
                for kk in range(n):
                    acc = _alg_add(acc, _alg_mul(levels, A[i][kk], V[kk][j]))
                rhs = _alg_mul(levels, V[i][j], lam[j])
                for li in range(nleaf):
                    obs.append((f'AV{i}{j}#{li}', acc[li], rhs[li]))       # (A V)_ij == V_ij lambda_j
                acc = [ZERO] * nleaf
                for kk in range(n):
                    acc = _alg_add(acc, _alg_mul(levels, V[kk][i], V[kk][j]))
                for li in range(nleaf):
                    obs.append((f'VtV{i}{j}#{li}', acc[li], (ONE if i == j else ZERO) if li == 0 else ZERO))
        pctx = PathCtx(run, case, path, terms, [])
        nv0 = len(run.violations)
        r = decide_path(run, case, pctx, obs, role, revars=revars, vacuity=first)
        for v in run.violations[nv0:]:
            # the specific failing input class of the recorded finding: every off-diagonal entry has
            # real part exactly 0 (the routine stops on the real parts) but a non-zero derivative part
            try:
                if all(float(v['inputs'][nm]) == 0.0 for nm in offdiag_re):
                    v['role'] = 'C12:jacobi:offdiagonal-real-parts-zero'
            except (KeyError, ValueError):
                pass
        if r == 'infeasible':
            continue
        first = False
        # ascending order of the real parts
        for i in range(n - 1):
            run.obligations += 1
            pc = PathCtx(run, case, path, terms, [('lt', lam[i + 1][0], lam[i][0])])
            s = pc.base_solver()
            rr = run.check(s)
            if rr == z3.unsat:
                run.discharged += 1
            elif rr == z3.unknown:
                run.inconclusive.append({'case': case_id(case), 'obligation': f'l{i} <= l{i + 1}',
                                         'reason': 'solver unknown/timeout'})
            else:
                names = pc.var_names()
                fa = {kk: float(v) for kk, v in model_assignment(s.model(), names).items()}
                shape, kind, pres = spec_of(case)
                nat = native_run(shape, kind, pres, fa, 'f64')
                d = {'case': case_id(case), 'obligation': f'eigenvalues ascending: l{i} <= l{i + 1}', 'role': role,
                     'inputs': {kk: repr(v) for kk, v in fa.items()}}
                try:
                    o = dict((nm, l) for (nm, l) in nat['outputs'])
                    a_, b_ = float(o[f'l{i}'][0]), float(o[f'l{i + 1}'][0])
                    d['native_f64'] = [a_, b_]
                    if a_ > b_:
                        run.violations.append(d)
                        continue
                except Exception as e:   # noqa: BLE001
                    d['native_error'] = repr(e)
                d['reason'] = 'solver model did not reproduce natively'
                run.inconclusive.append(d)
    if len(run.samples) < 4:
        run.sample({'case': case_id(case), 'paths': len(case['paths']),
                    'obligations': 'A (x) V == V (x) diag(lambda) and V^T (x) V == I in the truncated Taylor '
                                   'algebra, every part, on every feasible path of the routine; lambda ascending'})


def _c12_chunk(run, specs):
    n3 = any(s[1].startswith('lu;3') for s in specs)
    cases = trace(specs, 'c12', run.seed, max_paths=4096 if run.tier == 'thorough' else 600,
                  random_paths=(60 if run.tier == 'quick' else 600) if n3 else None)
    for case in cases:
        if case['kind'].startswith('jac;'):
            _c12_jacobi(run, case)
            continue
        run.cases += 1
        k = case['kind'].split(';')
        n, op = int(k[1]), k[2]
        run.functions.add(f'linalg::LU::new + {op} (n={n})')
        run.instantiations.add(f"LU<{case['shape']}<S>,S>")
        v = case['validation']
        run.validated += v['checked']
        if v['errors']:
            run.inconclusive.append({'case': case_id(case), 'reason': 'translator validation failed',
                                     'errors': v['errors'][:2]})
            continue
        if case.get('truncated') and n <= 2:
            run.inconclusive.append({'case': case_id(case), 'reason': 'path enumeration truncated'})
            continue
        terms = ir.dag_to_terms(case['dag'])
        levels = case['levels']
        nleaf = len(jets.leaves_of(tuple(levels))) if levels else 1
        # variable names are fixed by the input names: A{i}{j}.<path>
        paths_names = case['paths_names'] or ['']

        def in_leaves(nm):
            out = []
            for p in paths_names:
                out.append(ir.var(nm + ('.' + p if p else '')))
            return out
        if not levels:
            def in_leaves(nm):   # noqa: F811  plain float entries
                return [ir.var(nm)]
        A = [[in_leaves(f'A{i}{j}') for j in range(n)] for i in range(n)]
        revars = set([A[i][j][0][1] for i in range(n) for j in range(n)] + [f'b{i}' + ('.' + paths_names[0] if levels else '') for i in range(n)])
        if levels:
            revars = set([A[i][j][0][1] for i in range(n) for j in range(n)] + [in_leaves(f'b{i}')[0][1] for i in range(n)])
        # real-part determinant (Leibniz) for the singular paths
        det_re = ZERO
        for perm in itertools.permutations(range(n)):
            sgn = 1
            for x in range(n):
                for y in range(x + 1, n):
                    if perm[x] > perm[y]:
                        sgn = -sgn
            t = ONE if sgn == 1 else const(-1)
            for i in range(n):
                t = ir.mul(t, A[i][perm[i]][0])
            det_re = ir.add(det_re, t)
        limit = 10 ** 9
        for pi, path in enumerate(case['paths'][:limit]):
            res = path['result']
            role = f'C12:lu:{op}'
            if 'panic' in res:
                pctx = PathCtx(run, case, path, terms, [])
                run.paths += 1
                if decide_infeasible(run, case, pctx, 'panic path: ' + res['panic'][:60], role):
                    run.infeasible_paths += 1
                continue
            flags = dict(res['flags'])
            if flags.get('singular'):
                # reported singular => the real part of the matrix is singular on this path
                pctx = PathCtx(run, case, path, terms, [('ne', det_re, ZERO)])
                run.paths += 1
                if decide_infeasible(run, case, pctx, 'reported singular although det(re A) != 0', role + ':singular'):
                    run.infeasible_paths += 1
                continue
            outs = {nm: algebra.leaves_terms(terms, l) for (nm, l) in res['outputs']}
            obs = []
            if op == 'solve':
                b = [in_leaves(f'b{i}') for i in range(n)]
                x = [outs[f'x{i}'] for i in range(n)]
                for i in range(n):
                    acc = [ZERO] * nleaf
                    for j in range(n):
                        acc = _alg_add(acc, _alg_mul(levels, A[i][j], [t if t is not None else ZERO for t in x[j]]))
                    for li in range(nleaf):
                        obs.append((f'x{i}#{li}', acc[li], b[i][li]))   # (A x)_i == b_i, part by part
            elif op == 'inverse':
                inv = [[outs[f'inv{i}{j}'] for j in range(n)] for i in range(n)]
                for i in range(n):
                    for j in range(n):
                        acc = [ZERO] * nleaf
                        for kk in range(n):
                            acc = _alg_add(acc, _alg_mul(levels, A[i][kk], [t if t is not None else ZERO for t in inv[kk][j]]))
                        for li in range(nleaf):
                            obs.append((f'inv{i}{j}#{li}', acc[li], (ONE if i == j else ZERO) if li == 0 else ZERO))
            else:
                det = [ZERO] * nleaf
                for perm in itertools.permutations(range(n)):
                    sgn = 1
                    for x_ in range(n):
                        for y_ in range(x_ + 1, n):
                            if perm[x_] > perm[y_]:
                                sgn = -sgn
                    prod = A[0][perm[0]]
                    for i in range(1, n):
                        prod = _alg_mul(levels, prod, A[i][perm[i]])
                    det = _alg_add(det, prod if sgn == 1 else [ir.neg(t) for t in prod])
                for li in range(nleaf):
                    obs.append((f'det#{li}', outs['det'][li], det[li]))
            # for solve / inverse the obligation is the defining identity: lhs is built from the
            # implementation's result, rhs is the given data; the role of 'impl' and 'oracle' in the
            # replay is therefore symmetric
            pctx = PathCtx(run, case, path, terms, [])
            decide_path(run, case, pctx, obs, role, revars=revars, vacuity=(pi == 0))
        if len(run.samples) < 3:
            run.sample({'case': case_id(case), 'paths': len(case['paths']), 'truncated': case.get('truncated'),
                        'obligations': {'solve': '(A (x) x)_i == b_i in the truncated Taylor algebra, every part',
                                        'inverse': 'A (x) A^-1 == I, every part',
                                        'det': 'det == Leibniz polynomial in the algebra (its eps part is '
                                               'Jacobi\'s formula), sign = permutation parity on every pivoting '
                                               'path'}[op],
                        'singular_paths': 'path condition entails det(re A) == 0'})


def _c12_jac_chunk(run, item):
    (spec, i, m) = item
    cases = trace([spec], 'c12j', run.seed, max_paths=4096)
    case = cases[0]
    if case.get('truncated'):
        run.inconclusive.append({'case': case_id(case), 'reason': 'path enumeration truncated'})
        return
    case['paths'] = case['paths'][i::m]   # every worker takes a slice of the routine's paths
    _c12_jacobi(run, case)
    if i:
        run.cases -= 1


def c12(run):
    specs = []
    shapes = ['Real', 'Dual', 'Dual2'] if run.tier == 'quick' else ['Real', 'Dual', 'Dual2', 'HyperDual', 'DualVec2']
    for sh in shapes:
        for n in (1, 2):
            for op in ('solve', 'det', 'inverse'):
                specs.append((sh, f'lu;{n};{op}', (1 << (ngroups(sh) * (n * n + n))) - 1))
    # n = 3: the decision tree has thousands of feasible pivoting paths; seeded random sampling
    for op in ('solve', 'det', 'inverse'):
        specs.append(('Real', f'lu;3;{op}', 0))
    if run.tier == 'thorough':
        for op in ('solve', 'det'):
            specs.append(('Dual', f'lu;3;{op}', 0))
    run.timeout_ms = 8000 if run.tier == 'quick' else 60000
    parallel(run, _c12_chunk, [[s] for s in specs], chunk_timeout=600 if run.tier == 'quick' else 7200)
    # jacobi_eigenvalue, n = 2: every path of the routine (sign cases of abs, rotation branches,
    # early exit, final sort); the paths are spread over the workers
    # Dual2 entries were measured: ~1500 paths with nested sqrt atoms in three parts, most queries
    # hit the 60 s cap (192 undecided after 30 min on 14 workers) - not registered
    jshapes = ['Real', 'Dual']
    items = []
    for sh in jshapes:
        spec = (sh, 'jac;2;3', (1 << (ngroups(sh) * 3)) - 1)
        m = 1 if sh == 'Real' else (28 if sh == 'Dual' else 56)
        items += [(spec, i, m) for i in range(m)]
    parallel(run, _c12_jac_chunk, items, chunk_timeout=900 if run.tier == 'quick' else 3600)
    drop_undecided(run, 0.1)
    run.bounds = {'sizes': 'n = 1, 2 complete (all pivoting paths); n = 3: seeded random sample of pivoting paths '
                           '(60 quick / 600 thorough scripts, plain entries; Dual entries in thorough)',
                  'entry types': ', '.join(shapes),
                  'jacobi_eigenvalue': 'n = 2 (one rotation diagonalises exactly, so the routine terminates on '
                                       'every real input within 2 sweeps; max_iter = 3), all paths, entries '
                                       + ', '.join(jshapes) + '; the two float-absorption shortcuts (term == |h|, '
                                       'and the it_num > 4 annihilation) are unreachable in exact real arithmetic '
                                       'and therefore outside the claim',
                  'not applicable inside C12': 'jacobi_eigenvalue for n >= 3 (iteration to convergence on symbolic '
                                               'data has no finite unwinding), smallest_ev beyond what n = 2 gives, '
                                               'nalgebra symmetric_eigen / lu / try_inverse; sizes 4..6; the '
                                               'conditioning-scaled tolerance (real arithmetic is exact here)'}


EXPLAIN['C12'] = ('the crate\'s LU::new / solve / determinant / inverse are executed over dual entries at the '
                  'symbolic scalar, every pivoting path enumerated; z3 decides the defining identities A x = b, '
                  'A A^-1 = I and det = Leibniz polynomial in the truncated Taylor algebra part by part, for all '
                  'real matrices on the path; a singular report must entail det(re A) = 0; every pivot division '
                  'is shown non-zero (definedness). jacobi_eigenvalue (n = 2) is executed the same way: on every '
                  'feasible path z3 decides A V = V diag(lambda) and V^T V = I in every part and the ascending '
                  'order of the real parts; a model is replayed by recomputing the identity from the native outputs')


def c16(run):
    from . import kani_run
    kani_run.run_group(run, 'C16')
    run.bounds = {'types': 'Dual64, Dual32, Dual2_64, Dual3_64, HyperDual64, HyperHyperDual64, Dual<Dual64>, '
                           'Dual2<Dual64>; all bit patterns (NaN payloads, +-0, subnormals)',
                  'format': 'an in-memory record tape (Begin(struct name, len) | Key(name) | F64(bits) | F32(bits) | '
                            'End) driven through the derived Serialize/Deserialize impls (map-style visitor, field '
                            'identification by name)',
                  'outside': 'serde_json\'s text layer (float formatting/parsing loops on symbolic floats are not '
                             'encodable); the property\'s own restriction to values the format represents exactly '
                             'makes the in-memory format a legitimate instance'}


def c18(run):
    from . import kani_run
    kani_run.run_group(run, 'C18')
    run.bounds = {'types': 'Dual, Dual2, Dual3, HyperDual, HyperHyperDual (thorough), Dual<Dual>; DualVec<1>, '
                           'Dual2Vec<1>, HyperDualVec<1,1> with every presence pattern',
                  'leaves': 'token leaves whose Display writes one symbolic ASCII character: a letter or the '
                            'token of the leaf type\'s zero element',
                  'outside': 'the bracketed layout of vector parts with >= 2 components and nalgebra\'s matrix '
                             'layout (CBMC ran out of memory on the String join path); float-to-text round trip '
                             'of the std leaf Display (assumed); Python __repr__'}
    run.assumptions.append('std f32/f64 Display prints a shortest representation that parses back exactly')


EXPLAIN['C16'] = ('Kani/CBMC drives the derived Serialize/Deserialize impls through an exact in-memory data format '
                  'with fully symbolic bit patterns: round trip restores every part bit for bit; recorded keys are '
                  'exactly the public field names in declaration order; record count is 2 + 2 * #parts per struct')
EXPLAIN['C18'] = ('Kani/CBMC runs the real Display impls over token leaves into a fixed buffer via core::fmt::write; '
                  'the buffer equals the real-part token followed, for each present part in declaration order, by '
                  '" + ", the part token and its documented symbol; absent parts are omitted')
