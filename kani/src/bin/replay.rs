//! native replay of a Kani counterexample: replay <harness> <hex bytes of any() #0> <hex #1> ...
#[cfg(kani)]
fn main() {}

#[cfg(not(kani))]
fn main() {
    use kani_harness::util::native;
    let args: Vec<String> = std::env::args().collect();
    let name = &args[1];
    let vals: Vec<Vec<u8>> = args[2..]
        .iter()
        .map(|h| {
            (0..h.len() / 2)
                .map(|i| u8::from_str_radix(&h[2 * i..2 * i + 2], 16).unwrap())
                .collect()
        })
        .collect();
    native::QUEUE.with(|q| *q.borrow_mut() = vals);
    let f = kani_harness::harnesses()
        .into_iter()
        .find(|(n, _)| n == name)
        .unwrap_or_else(|| panic!("unknown harness {name}"))
        .1;
    let r = std::panic::catch_unwind(f);
    match r {
        Ok(()) => println!("REPLAY ok"),
        Err(e) => {
            let outside = native::OUTSIDE.with(|o| *o.borrow());
            if outside {
                println!("REPLAY outside-assumption");
            } else {
                let msg = e
                    .downcast_ref::<String>()
                    .cloned()
                    .or_else(|| e.downcast_ref::<&str>().map(|s| s.to_string()))
                    .unwrap_or_default();
                println!("REPLAY failed {}", msg.replace('\n', " "));
            }
        }
    }
}
