//! C06: comparisons / predicates / selection decided by the real part only; plain-float interface
//! forwards to std. Symbolic IEEE bit patterns (NaN, +-0, infinities, subnormals included).
use crate::util::*;
use nalgebra::{Const, RealField, SVector, SMatrix, U1};
use num_dual::*;
use num_traits::{One, Signed, Zero};

fn any_dual2vec() -> Dual2Vec<f64, f64, Const<2>> {
    let v1 = if any_bool() {
        Derivative::some(SMatrix::<f64, 1, 2>::new(any_f64(), any_f64()))
    } else {
        Derivative::none()
    };
    let v2 = if any_bool() {
        Derivative::some(SMatrix::<f64, 2, 2>::new(any_f64(), any_f64(), any_f64(), any_f64()))
    } else {
        Derivative::none()
    };
    Dual2Vec::new(any_f64(), v1, v2)
}
fn any_dualvec() -> DualVec<f64, f64, Const<2>> {
    let eps = if any_bool() {
        Derivative::some(SVector::<f64, 2>::new(any_f64(), any_f64()))
    } else {
        Derivative::none()
    };
    DualVec::new(any_f64(), eps)
}

macro_rules! cmp_body {
    ($a:expr, $b:expr) => {{
        let (a, b) = ($a, $b);
        let (x, y) = (a.re, b.re);
        assert!((a < b) == (x < y));
        assert!((a <= b) == (x <= y));
        assert!((a > b) == (x > y));
        assert!((a >= b) == (x >= y));
        assert!((a == b) == (x == y));
        assert!((a != b) == (x != y));
        assert!(a.partial_cmp(&b) == x.partial_cmp(&y));
        cover!(x < y);
        cover!(x.is_nan());
    }};
}

#[cfg_attr(kani, kani::proof)]
pub fn c06_cmp_dual64() {
    cmp_body!(Dual64::new(any_f64(), any_f64()), Dual64::new(any_f64(), any_f64()));
}
#[cfg_attr(kani, kani::proof)]
pub fn c06_cmp_dual32() {
    cmp_body!(Dual32::new(any_f32(), any_f32()), Dual32::new(any_f32(), any_f32()));
}
#[cfg_attr(kani, kani::proof)]
pub fn c06_cmp_dual2_64() {
    cmp_body!(
        Dual2_64::new(any_f64(), any_f64(), any_f64()),
        Dual2_64::new(any_f64(), any_f64(), any_f64())
    );
}
#[cfg_attr(kani, kani::proof)]
pub fn c06_cmp_dualvec64() {
    cmp_body!(any_dualvec(), any_dualvec());
}
#[cfg_attr(kani, kani::proof)]
pub fn c06_cmp_dual2vec64() {
    cmp_body!(any_dual2vec(), any_dual2vec());
}

macro_rules! pred_body {
    ($a:expr) => {{
        let a = $a;
        let x: f64 = a.re;
        assert!(a.is_zero() == x.is_zero());
        assert!(a.is_one() == x.is_one());
        assert!(a.is_positive() == Signed::is_positive(&x));
        assert!(a.is_negative() == Signed::is_negative(&x));
        cover!(x.is_zero());
    }};
}

#[cfg_attr(kani, kani::proof)]
pub fn c06_pred_scalar_types() {
    pred_body!(Dual64::new(any_f64(), any_f64()));
    pred_body!(Dual2_64::new(any_f64(), any_f64(), any_f64()));
    pred_body!(Dual3_64::new(any_f64(), any_f64(), any_f64(), any_f64()));
    pred_body!(HyperDual64::new(any_f64(), any_f64(), any_f64(), any_f64()));
}
#[cfg_attr(kani, kani::proof)]
pub fn c06_pred_hyperhyper_and_vec() {
    pred_body!(HyperHyperDual64::new(
        any_f64(), any_f64(), any_f64(), any_f64(), any_f64(), any_f64(), any_f64(), any_f64()
    ));
    pred_body!(any_dualvec());
    pred_body!(any_dual2vec());
}

/// abs / signum select by the sign of the real part and keep (negate) every part
#[cfg_attr(kani, kani::proof)]
pub fn c06_abs_signum_dual3() {
    let a = Dual3_64::new(any_f64(), any_f64(), any_f64(), any_f64());
    assume(!a.re.is_nan());
    let r = Signed::abs(&a);
    if Signed::is_positive(&a.re) {
        assert!(same64(r.re, a.re) && same64(r.v1, a.v1) && same64(r.v2, a.v2) && same64(r.v3, a.v3));
    } else {
        assert!(same64(r.re, -a.re) && same64(r.v1, -a.v1) && same64(r.v2, -a.v2) && same64(r.v3, -a.v3));
    }
    let s = Signed::signum(&a);
    assert!(s.v1 == 0.0 && s.v2 == 0.0 && s.v3 == 0.0);
    if Signed::is_positive(&a.re) {
        assert!(s.re == 1.0);
    } else if a.re == 0.0 {
        assert!(s.re == 0.0);
    } else {
        assert!(s.re == -1.0);
    }
    cover!(a.re < 0.0);
}

/// RealField::{min,max,clamp} return the operand selected by the real parts, with its own parts
#[cfg_attr(kani, kani::proof)]
pub fn c06_minmax_clamp_dual64() {
    let a = Dual64::new(any_f64(), any_f64());
    let b = Dual64::new(any_f64(), any_f64());
    assume(!a.re.is_nan() && !b.re.is_nan());
    let mx = RealField::max(a, b);
    let mn = RealField::min(a, b);
    if b.re > a.re {
        assert!(same64(mx.re, b.re) && same64(mx.eps, b.eps));
        assert!(same64(mn.re, a.re) && same64(mn.eps, a.eps));
    } else if b.re < a.re {
        assert!(same64(mx.re, a.re) && same64(mx.eps, a.eps));
        assert!(same64(mn.re, b.re) && same64(mn.eps, b.eps));
    } else {
        assert!(mx.re == a.re && mn.re == a.re);
    }
    let lo = Dual64::new(any_f64(), any_f64());
    let hi = Dual64::new(any_f64(), any_f64());
    assume(!lo.re.is_nan() && !hi.re.is_nan() && lo.re <= hi.re);
    let c = RealField::clamp(a, lo, hi);
    if a.re < lo.re {
        assert!(same64(c.re, lo.re) && same64(c.eps, lo.eps));
    } else if a.re > hi.re {
        assert!(same64(c.re, hi.re) && same64(c.eps, hi.eps));
    } else {
        assert!(same64(c.re, a.re) && same64(c.eps, a.eps));
    }
    cover!(a.re > hi.re);
}

#[cfg_attr(kani, kani::proof)]
pub fn c06_minmax_dual2vec64() {
    let a = any_dual2vec();
    let b = any_dual2vec();
    assume(!a.re.is_nan() && !b.re.is_nan() && a.re != b.re);
    let a_v1_none = a.v1 == Derivative::none();
    let b_v1_none = b.v1 == Derivative::none();
    let (ar, br) = (a.re, b.re);
    let mx = RealField::max(a, b);
    if br > ar {
        assert!(same64(mx.re, br) && (mx.v1 == Derivative::none()) == b_v1_none);
    } else {
        assert!(same64(mx.re, ar) && (mx.v1 == Derivative::none()) == a_v1_none);
    }
    cover!(br > ar);
}

/// plain-float instances of the interface return what std returns (every std function is an
/// uninterpreted function: a mis-forwarded method hits a different function and fails)
#[cfg_attr(kani, kani::proof)]
#[cfg_attr(kani, kani::unwind(8))]
#[cfg_attr(kani, kani::stub(f64::sin, uf::sin))]
#[cfg_attr(kani, kani::stub(f64::cos, uf::cos))]
#[cfg_attr(kani, kani::stub(f64::tan, uf::tan))]
#[cfg_attr(kani, kani::stub(f64::sin_cos, uf::sin_cos))]
#[cfg_attr(kani, kani::stub(f64::asin, uf::asin))]
#[cfg_attr(kani, kani::stub(f64::acos, uf::acos))]
#[cfg_attr(kani, kani::stub(f64::atan, uf::atan))]
pub fn c06_leaf_forward_trig() {
    let x = any_f64();
    assume(x.is_finite() && x != 0.0);
    assert!(same64(DualNum::sin(&x), x.sin()));
    assert!(same64(DualNum::cos(&x), x.cos()));
    assert!(same64(DualNum::tan(&x), x.tan()));
    assert!(same64(DualNum::asin(&x), x.asin()));
    assert!(same64(DualNum::acos(&x), x.acos()));
    assert!(same64(DualNum::atan(&x), x.atan()));
    let (s, c) = DualNum::sin_cos(&x);
    assert!(same64(s, x.sin()) && same64(c, x.cos()));
    cover!(true);
}

#[cfg_attr(kani, kani::proof)]
#[cfg_attr(kani, kani::unwind(8))]
#[cfg_attr(kani, kani::stub(f64::sinh, uf::sinh))]
#[cfg_attr(kani, kani::stub(f64::cosh, uf::cosh))]
#[cfg_attr(kani, kani::stub(f64::tanh, uf::tanh))]
#[cfg_attr(kani, kani::stub(f64::asinh, uf::asinh))]
#[cfg_attr(kani, kani::stub(f64::acosh, uf::acosh))]
#[cfg_attr(kani, kani::stub(f64::atanh, uf::atanh))]
pub fn c06_leaf_forward_hyp() {
    let x = any_f64();
    assume(x.is_finite() && x != 0.0);
    assert!(same64(DualNum::sinh(&x), x.sinh()));
    assert!(same64(DualNum::cosh(&x), x.cosh()));
    assert!(same64(DualNum::tanh(&x), x.tanh()));
    assert!(same64(DualNum::asinh(&x), x.asinh()));
    assert!(same64(DualNum::acosh(&x), x.acosh()));
    assert!(same64(DualNum::atanh(&x), x.atanh()));
    cover!(true);
}

#[cfg_attr(kani, kani::proof)]
#[cfg_attr(kani, kani::unwind(8))]
#[cfg_attr(kani, kani::stub(f64::exp, uf::exp))]
#[cfg_attr(kani, kani::stub(f64::exp2, uf::exp2))]
#[cfg_attr(kani, kani::stub(f64::exp_m1, uf::exp_m1))]
#[cfg_attr(kani, kani::stub(f64::ln, uf::ln))]
#[cfg_attr(kani, kani::stub(f64::log2, uf::log2))]
#[cfg_attr(kani, kani::stub(f64::log10, uf::log10))]
pub fn c06_leaf_forward_explog() {
    let x = any_f64();
    assume(x.is_finite() && x != 0.0);
    assert!(same64(DualNum::exp(&x), x.exp()));
    assert!(same64(DualNum::exp2(&x), x.exp2()));
    assert!(same64(DualNum::exp_m1(&x), x.exp_m1()));
    assert!(same64(DualNum::ln(&x), x.ln()));
    assert!(same64(DualNum::log2(&x), x.log2()));
    assert!(same64(DualNum::log10(&x), x.log10()));
    cover!(true);
}

#[cfg_attr(kani, kani::proof)]
#[cfg_attr(kani, kani::unwind(8))]
#[cfg_attr(kani, kani::stub(f64::ln_1p, uf::ln_1p))]
#[cfg_attr(kani, kani::stub(f64::cbrt, uf::cbrt))]
#[cfg_attr(kani, kani::stub(f64::log, uf::log))]
#[cfg_attr(kani, kani::stub(f64::atan2, uf::atan2))]
#[cfg_attr(kani, kani::stub(f64::powf, uf::powf))]
#[cfg_attr(kani, kani::stub(f64::powi, uf::powi))]
pub fn c06_leaf_forward_misc() {
    let x = any_f64();
    let y = any_f64();
    let n = any_i32();
    assume(x.is_finite() && x != 0.0 && y.is_finite() && y != 0.0);
    assert!(same64(DualNum::ln_1p(&x), x.ln_1p()));
    assert!(same64(DualNum::cbrt(&x), x.cbrt()));
    assert!(same64(DualNum::log(&x, y), x.log(y)));
    assert!(same64(DualNum::atan2(&x, y), x.atan2(y)));
    assert!(same64(DualNum::powf(&x, y), x.powf(y)));
    assert!(same64(DualNum::powd(&x, y), x.powf(y)));
    assert!(same64(DualNum::powi(&x, n), x.powi(n)));
    assert!(same64(DualNum::<f64>::re(&x), x));
    cover!(true);
}

/// the real part of a dual result is the plain function of the real part, whatever the
/// derivative parts are (bit for bit, UF stubs)
#[cfg_attr(kani, kani::proof)]
#[cfg_attr(kani, kani::unwind(8))]
#[cfg_attr(kani, kani::stub(f64::sin_cos, uf::sin_cos))]
#[cfg_attr(kani, kani::stub(f64::exp, uf::exp))]
#[cfg_attr(kani, kani::stub(f64::ln, uf::ln))]
#[cfg_attr(kani, kani::stub(f64::atan, uf::atan))]
pub fn c06_re_transparent_dual2_slow() {
    let x = any_f64();
    assume(x.is_finite() && x != 0.0);
    let a = Dual2_64::new(x, any_f64(), any_f64());
    let b = Dual2_64::new(x, any_f64(), any_f64());
    assert!(same64(a.sin().re, b.sin().re) && same64(a.sin().re, uf::sin(x)));
    assert!(same64(a.exp().re, b.exp().re) && same64(a.exp().re, uf::exp(x)));
    assert!(same64(a.ln().re, uf::ln(x)));
    assert!(same64(a.atan().re, uf::atan(x)));
    cover!(true);
}

#[cfg_attr(kani, kani::proof)]
#[cfg_attr(kani, kani::unwind(8))]
#[cfg_attr(kani, kani::stub(f64::sin_cos, uf::sin_cos))]
#[cfg_attr(kani, kani::stub(f64::exp, uf::exp))]
pub fn c06_re_transparent_dual() {
    let x = any_f64();
    assume(x.is_finite() && x != 0.0);
    let a = Dual64::new(x, any_f64());
    let b = Dual64::new(x, any_f64());
    assert!(same64(a.sin().re, b.sin().re) && same64(a.sin().re, uf::sin(x)));
    assert!(same64(a.exp().re, b.exp().re) && same64(a.exp().re, uf::exp(x)));
    cover!(true);
}


/// the real part of the dual result is bit for bit the std function of the real part. Under Kani
/// the evaluation point is concrete and libm is uninterpreted (a real part computed through another
/// function, e.g. ln(1+x) for ln_1p(x), is a different uninterpreted value); the native replay
/// additionally walks a list of probe points with the real libm.
macro_rules! re_is_float_harness {
    ($name:ident, [$($stub:meta),*], [$($m:ident),*]) => {
        #[cfg_attr(kani, kani::proof)]
        #[cfg_attr(kani, kani::unwind(12))]
        $( #[cfg_attr(kani, $stub)] )*
        pub fn $name() {
            #[cfg(kani)]
            let points = [0.5f64];
            #[cfg(not(kani))]
            let points = [0.5f64, 1e-10, -1e-10, 0.3, -0.2, 1e-3, 3e-11, 1.5];
            for &x in points.iter() {
                let a = Dual64::new(x, 1.0);
                let h = HyperDual64::new(x, 1.0, 1.0, 0.0);
                $(
                    let want = uf::$m(x);
                    let (ga, gh) = (DualNum::$m(&a).re, DualNum::$m(&h).re);
                    assert!(same64(ga, want) || (ga.is_nan() && want.is_nan()));
                    assert!(same64(gh, want) || (gh.is_nan() && want.is_nan()));
                )*
            }
            cover!(true);
        }
    };
}
re_is_float_harness!(c06_re_is_float_a,
    [kani::stub(f64::sin_cos, uf::sin_cos), kani::stub(f64::asin, uf::asin), kani::stub(f64::acos, uf::acos)],
    [sin, cos, asin, acos]);
re_is_float_harness!(c06_re_is_float_b,
    [kani::stub(f64::atan, uf::atan), kani::stub(f64::sinh, uf::sinh), kani::stub(f64::cosh, uf::cosh)],
    [atan, sinh, cosh]);
re_is_float_harness!(c06_re_is_float_c,
    [kani::stub(f64::asinh, uf::asinh), kani::stub(f64::acosh, uf::acosh), kani::stub(f64::atanh, uf::atanh)],
    [asinh, acosh, atanh]);
re_is_float_harness!(c06_re_is_float_d,
    [kani::stub(f64::exp, uf::exp), kani::stub(f64::exp_m1, uf::exp_m1), kani::stub(f64::ln, uf::ln), kani::stub(f64::ln_1p, uf::ln_1p)],
    [exp, exp_m1, ln, ln_1p]);
re_is_float_harness!(c06_re_is_float_e,
    [kani::stub(f64::ln, uf::ln_c), kani::stub(f64::exp2, uf::exp2), kani::stub(f64::log2, uf::log2), kani::stub(f64::log10, uf::log10), kani::stub(f64::cbrt, uf::cbrt)],
    [exp2, log2, log10, cbrt]);

pub const LIST: &[(&str, fn())] = &[
    ("c06_re_is_float_a", c06_re_is_float_a),
    ("c06_re_is_float_b", c06_re_is_float_b),
    ("c06_re_is_float_c", c06_re_is_float_c),
    ("c06_re_is_float_d", c06_re_is_float_d),
    ("c06_re_is_float_e", c06_re_is_float_e),
    ("c06_cmp_dual64", c06_cmp_dual64),
    ("c06_cmp_dual32", c06_cmp_dual32),
    ("c06_cmp_dual2_64", c06_cmp_dual2_64),
    ("c06_cmp_dualvec64", c06_cmp_dualvec64),
    ("c06_cmp_dual2vec64", c06_cmp_dual2vec64),
    ("c06_pred_scalar_types", c06_pred_scalar_types),
    ("c06_pred_hyperhyper_and_vec", c06_pred_hyperhyper_and_vec),
    ("c06_abs_signum_dual3", c06_abs_signum_dual3),
    ("c06_minmax_clamp_dual64", c06_minmax_clamp_dual64),
    ("c06_minmax_dual2vec64", c06_minmax_dual2vec64),
    ("c06_leaf_forward_trig", c06_leaf_forward_trig),
    ("c06_leaf_forward_hyp", c06_leaf_forward_hyp),
    ("c06_leaf_forward_explog", c06_leaf_forward_explog),
    ("c06_leaf_forward_misc", c06_leaf_forward_misc),
    ("c06_re_transparent_dual2_slow", c06_re_transparent_dual2_slow),
    ("c06_re_transparent_dual", c06_re_transparent_dual),
];
