//! C09: integer-exponent arithmetic for every i32 exponent with |n| <= 2^30: no integer
//! overflow / panic in the coefficient computation on any type (Kani's arithmetic-overflow checks
//! are the assertions); for small |n| additionally the exact coefficient values.
//! The base is 1 (powi of the real part is then exactly 1 and the derivative parts expose the
//! coefficients n, n(n-1), n(n-1)(n-2)).
use crate::util::*;
use num_dual::*;

fn any_exp(bound: i32) -> i32 {
    let n = any_i32();
    assume(n >= -bound && n <= bound);
    n
}

#[cfg_attr(kani, kani::proof)]
#[cfg_attr(kani, kani::stub(f64::powi, uf::powi))]
pub fn c09_powi_no_overflow_order2() {
    let n = any_exp(1 << 30);
    let y = Dual2_64::new(1.0, 1.0, 0.0).powi(n);
    let z = HyperDual64::new(1.0, 1.0, 1.0, 0.0).powi(n);
    assert!(y.re == 1.0 && z.re == 1.0);
    cover!(n > 100000);
    cover!(n < -100000);
}

#[cfg_attr(kani, kani::proof)]
#[cfg_attr(kani, kani::stub(f64::powi, uf::powi))]
pub fn c09_powi_no_overflow_order3() {
    let n = any_exp(1 << 30);
    let y = Dual3_64::new(1.0, 1.0, 0.0, 0.0).powi(n);
    let z = HyperHyperDual64::new(1.0, 1.0, 1.0, 1.0, 0.0, 0.0, 0.0, 0.0).powi(n);
    assert!(y.re == 1.0 && z.re == 1.0);
    cover!(n > 100000);
    cover!(n < -100000);
}

#[cfg_attr(kani, kani::proof)]
#[cfg_attr(kani, kani::stub(f32::powi, powi32_one))]
pub fn c09_powi_no_overflow_f32() {
    let n = any_exp(1 << 30);
    let y = Dual3_32::new(1.0, 1.0, 0.0, 0.0).powi(n);
    let z = Dual2_32::new(1.0, 1.0, 0.0).powi(n);
    assert!(y.re == 1.0 && z.re == 1.0);
    cover!(n > 100000);
}

/// exact coefficients for small exponents (products of small integers are exact in f64)
#[cfg_attr(kani, kani::proof)]
#[cfg_attr(kani, kani::stub(f64::powi, uf::powi))]
pub fn c09_powi_coeff_small_dual3() {
    let n = any_exp(40);
    let y = Dual3_64::new(1.0, 1.0, 0.0, 0.0).powi(n);
    let m = n as i64;
    assert!(y.v1 == m as f64);
    assert!(y.v2 == (m * (m - 1)) as f64);
    assert!(y.v3 == (m * (m - 1) * (m - 2)) as f64);
    cover!(n == -40);
}

#[cfg_attr(kani, kani::proof)]
#[cfg_attr(kani, kani::stub(f64::powi, uf::powi))]
pub fn c09_powi_coeff_small_hyperhyperdual() {
    let n = any_exp(40);
    let y = HyperHyperDual64::new(1.0, 1.0, 1.0, 1.0, 0.0, 0.0, 0.0, 0.0).powi(n);
    let m = n as i64;
    assert!(y.eps1 == m as f64 && y.eps2 == m as f64 && y.eps3 == m as f64);
    assert!(y.eps1eps2 == (m * (m - 1)) as f64 && y.eps1eps3 == (m * (m - 1)) as f64);
    assert!(y.eps1eps2eps3 == (m * (m - 1) * (m - 2)) as f64);
    cover!(n == 40);
}

pub fn powi32_one(x: f32, _n: i32) -> f32 {
    // only ever called with base 1
    assert!(x == 1.0);
    1.0
}

pub const LIST: &[(&str, fn())] = &[
    ("c09_powi_no_overflow_order2", c09_powi_no_overflow_order2),
    ("c09_powi_no_overflow_order3", c09_powi_no_overflow_order3),
    ("c09_powi_no_overflow_f32", c09_powi_no_overflow_f32),
    ("c09_powi_coeff_small_dual3", c09_powi_coeff_small_dual3),
    ("c09_powi_coeff_small_hyperhyperdual", c09_powi_coeff_small_hyperhyperdual),
];
