//! C10: smooth special points. The evaluation point is concrete (a small enumerated set chosen
//! symbolically), the derivative parts are symbolic; libm is replaced by uninterpreted functions
//! that know only the exact IEEE facts at those points.
use crate::util::*;
use nalgebra::{Const, SVector, U1};
use num_dual::*;

fn zero_pm() -> f64 {
    if any_bool() { 0.0 } else { -0.0 }
}
fn small_n(max: u8) -> i32 {
    let n = any_u8();
    assume(n <= max);
    n as i32
}
fn near(a: f64, b: f64) -> bool {
    a.is_finite() && (a - b).abs() <= 1e-9
}

// ---------------------------------------------------------------- integer powers at zero
#[cfg_attr(kani, kani::proof)]
#[cfg_attr(kani, kani::stub(f64::powi, uf::powi))]
pub fn c10_powi_zero_dual3() {
    let (a, b, c) = (small_int64(4), small_int64(4), small_int64(4));
    let x = Dual3_64::new(zero_pm(), a, b, c);
    let n = small_n(6);
    let y = x.powi(n);
    let want = match n {
        0 => (1.0, 0.0, 0.0, 0.0),
        1 => (0.0, a, b, c),
        2 => (0.0, 0.0, 2.0 * a * a, 6.0 * a * b),
        3 => (0.0, 0.0, 0.0, 6.0 * a * a * a),
        _ => (0.0, 0.0, 0.0, 0.0),
    };
    assert!(y.re == want.0 && y.v1 == want.1 && y.v2 == want.2 && y.v3 == want.3);
    cover!(n == 3 && a != 0.0);
}

#[cfg_attr(kani, kani::proof)]
#[cfg_attr(kani, kani::stub(f64::powi, uf::powi))]
pub fn c10_powi_zero_hyperhyperdual() {
    let (e1, e2, e3) = (small_int64(3), small_int64(3), small_int64(3));
    let (e12, e13, e23, e123) = (small_int64(3), small_int64(3), small_int64(3), small_int64(3));
    let x = HyperHyperDual64::new(zero_pm(), e1, e2, e3, e12, e13, e23, e123);
    let n = small_n(5);
    let y = x.powi(n);
    let z = 0.0;
    let want = match n {
        0 => [1.0, z, z, z, z, z, z, z],
        1 => [z, e1, e2, e3, e12, e13, e23, e123],
        2 => [z, z, z, z, 2.0 * e1 * e2, 2.0 * e1 * e3, 2.0 * e2 * e3,
              2.0 * (e1 * e23 + e2 * e13 + e3 * e12)],
        3 => [z, z, z, z, z, z, z, 6.0 * e1 * e2 * e3],
        _ => [z; 8],
    };
    let got = [y.re, y.eps1, y.eps2, y.eps3, y.eps1eps2, y.eps1eps3, y.eps2eps3, y.eps1eps2eps3];
    assert!(got[0] == want[0] && got[1] == want[1] && got[2] == want[2] && got[3] == want[3]);
    assert!(got[4] == want[4] && got[5] == want[5] && got[6] == want[6] && got[7] == want[7]);
    cover!(n == 3);
}

#[cfg_attr(kani, kani::proof)]
#[cfg_attr(kani, kani::stub(f64::powi, uf::powi))]
pub fn c10_powi_zero_dualvec_hyperdual() {
    let (a, b) = (finite64(1e6), finite64(1e6));
    let x = DualVec::<f64, f64, Const<2>>::new(zero_pm(), Derivative::some(SVector::<f64, 2>::new(a, b)));
    let n = small_n(6);
    let y = x.powi(n);
    let e = y.eps.unwrap_generic(Const::<2>, U1);
    if n == 1 {
        assert!(e[0] == a && e[1] == b);
    } else {
        assert!(e[0] == 0.0 && e[1] == 0.0);
    }
    assert!(y.re == if n == 0 { 1.0 } else { 0.0 });
    let (p, q, r) = (small_int64(4), small_int64(4), small_int64(4));
    let h = HyperDual64::new(zero_pm(), p, q, r).powi(n);
    let want12 = match n { 1 => r, 2 => 2.0 * p * q, _ => 0.0 };
    assert!(h.eps1eps2 == want12 && h.eps1 == if n == 1 { p } else { 0.0 });
    cover!(n == 2);
}

// ---------------------------------------------------------------- real powers at zero
#[cfg_attr(kani, kani::proof)]
#[cfg_attr(kani, kani::stub(f64::powf, uf::powf))]
pub fn c10_powf_zero_integer_exponent_dual3() {
    let (a, b, c) = (small_int64(4), small_int64(4), small_int64(4));
    let x = Dual3_64::new(0.0, a, b, c);
    let n = small_n(8);
    let y = x.powf(n as f64);
    let want = match n {
        0 => (1.0, 0.0, 0.0, 0.0),
        1 => (0.0, a, b, c),
        2 => (0.0, 0.0, 2.0 * a * a, 6.0 * a * b),
        3 => (0.0, 0.0, 0.0, 6.0 * a * a * a),
        _ => (0.0, 0.0, 0.0, 0.0),
    };
    assert!(y.re == want.0 && y.v1 == want.1 && y.v2 == want.2 && y.v3 == want.3);
    cover!(n == 3);
    cover!(n == 7);
}

/// non-integer exponents above the order of the number: everything is finite and zero
#[cfg_attr(kani, kani::proof)]
#[cfg_attr(kani, kani::stub(f64::powf, uf::powf))]
pub fn c10_powf_zero_noninteger_above_order() {
    let n = any_f64();
    assume(n > 1.0 && n < 64.0 && (n - 2.0).abs() > 1e-6);
    let e = finite64(1e6);
    let y = Dual64::new(0.0, e).powf(n);
    assert!(y.re == 0.0 && y.eps == 0.0);
    let m = any_f64();
    assume(m > 2.0 + 1e-6 && m < 64.0);
    let (a, b) = (small_int64(4), small_int64(4));
    let y2 = Dual2_64::new(0.0, a, b).powf(m);
    assert!(y2.re == 0.0 && y2.v1 == 0.0 && y2.v2 == 0.0);
    let h = HyperDual64::new(0.0, a, b, small_int64(4)).powf(m);
    assert!(h.re == 0.0 && h.eps1 == 0.0 && h.eps2 == 0.0 && h.eps1eps2 == 0.0);
    let k = any_f64();
    assume(k > 3.0 && k < 64.0);
    let y3 = Dual3_64::new(0.0, a, b, small_int64(4)).powf(k);
    assert!(y3.re == 0.0 && y3.v1 == 0.0 && y3.v2 == 0.0 && y3.v3 == 0.0);
    cover!(n < 2.0);
    cover!(m < 3.0);
}

// ---------------------------------------------------------------- atan2 on the axes
fn pow2_nonzero() -> f64 {
    let k = any_u8();
    assume(k < 8);
    let m = [0.5, 1.0, 2.0, 4.0, -0.5, -1.0, -2.0, -4.0];
    m[k as usize]
}

#[cfg_attr(kani, kani::proof)]
#[cfg_attr(kani, kani::unwind(8))]
#[cfg_attr(kani, kani::stub(f64::atan2, uf::atan2))]
#[cfg_attr(kani, kani::stub(f64::atan, uf::atan))]
pub fn c10_atan2_axis_dual64() {
    // (y, x) = (nonzero, +-0): d/dt atan2 = (x y' - y x') / (x^2 + y^2) = -x'/y
    let y0 = pow2_nonzero();
    let (ey, ex) = (finite64(1e6), finite64(1e6));
    // keep the exact quotients away from the subnormal range (double rounding is not the subject)
    assume((ex == 0.0 || ex.abs() >= 1e-100) && (ey == 0.0 || ey.abs() >= 1e-100));
    let r = Dual64::new(y0, ey).atan2(Dual64::new(zero_pm(), ex));
    assert!(r.eps.is_finite());
    assert!(r.eps == -ex / y0);
    // (y, x) = (+-0, nonzero): y'/x
    let x0 = pow2_nonzero();
    let r2 = Dual64::new(zero_pm(), ey).atan2(Dual64::new(x0, ex));
    assert!(r2.eps.is_finite());
    assert!(r2.eps == ey / x0);
    cover!(y0 < 0.0);
}

#[cfg_attr(kani, kani::proof)]
#[cfg_attr(kani, kani::unwind(8))]
#[cfg_attr(kani, kani::stub(f64::atan2, uf::atan2))]
#[cfg_attr(kani, kani::stub(f64::atan, uf::atan))]
pub fn c10_atan2_axis_dual2_dualvec() {
    let y0 = pow2_nonzero();
    let (a, b, c, d) = (small_int64(4), small_int64(4), small_int64(4), small_int64(4));
    // second order: with x = 0: theta'' = (-y x'' ... ) ; only finiteness and the first-order value
    let r = Dual2_64::new(y0, a, b).atan2(Dual2_64::new(zero_pm(), c, d));
    assert!(r.v1 == -c / y0);
    // theta'' at x = 0: (-x''/y) + 2 x' y' / y^2
    assert!(r.v2.is_finite() && r.v2 == -d / y0 + 2.0 * c * a / (y0 * y0));
    let v = DualVec::<f64, f64, Const<2>>::new(y0, Derivative::some(SVector::<f64, 2>::new(a, b)))
        .atan2(DualVec::new(zero_pm(), Derivative::some(SVector::<f64, 2>::new(c, d))));
    let e = v.eps.unwrap_generic(Const::<2>, U1);
    assert!(e[0] == -c / y0 && e[1] == -d / y0);
    cover!(true);
}

/// nested type Dual<Dual64, f64>: the real part of the result is itself a dual number and must
/// carry the inner derivative; the outer part and the mixed part follow from the chain rule.
/// Concrete points on the axis (loop), the parts of the vanishing coordinate symbolic.
#[cfg_attr(kani, kani::proof)]
#[cfg_attr(kani, kani::unwind(8))]
#[cfg_attr(kani, kani::stub(f64::atan2, uf::atan2))]
#[cfg_attr(kani, kani::stub(f64::atan, uf::atan))]
pub fn c10_atan2_axis_nested_x_zero() {
    type DD = Dual<Dual64, f64>;
    let (c, d) = (small_int64(4), small_int64(4));
    let (a, b) = (3.0, -2.0);
    for &p in [0.5, -2.0].iter() {
        for &z in [0.0, -0.0].iter() {
            // x = +-0 with inner part c and outer part d; y = p with inner part a, outer part b
            let y = DD::new(Dual64::new(p, a), Dual64::new(b, 0.0));
            let x = DD::new(Dual64::new(z, c), Dual64::new(d, 0.0));
            let r = y.atan2(x);
            assert!(r.re.eps == -c / p);
            assert!(r.eps.re == -d / p);
            assert!(r.eps.eps.is_finite() && r.eps.eps == (c * b + a * d) / (p * p));
        }
    }
    cover!(c != 0.0 && d != 0.0);
}

#[cfg_attr(kani, kani::proof)]
#[cfg_attr(kani, kani::unwind(8))]
#[cfg_attr(kani, kani::stub(f64::atan2, uf::atan2))]
#[cfg_attr(kani, kani::stub(f64::atan, uf::atan))]
pub fn c10_atan2_axis_nested_y_zero() {
    type DD = Dual<Dual64, f64>;
    let (c, d) = (small_int64(4), small_int64(4));
    let (a, b) = (3.0, -2.0);
    for &p in [0.5, -2.0].iter() {
        for &z in [0.0, -0.0].iter() {
            // y = +-0 with parts (c, d); x = p with parts (a, b): theta_s = y_s / x
            let r2 = DD::new(Dual64::new(z, c), Dual64::new(d, 0.0))
                .atan2(DD::new(Dual64::new(p, a), Dual64::new(b, 0.0)));
            assert!(r2.re.eps == c / p);
            assert!(r2.eps.re == d / p);
            assert!(r2.eps.eps.is_finite() && r2.eps.eps == -(c * b + d * a) / (p * p));
        }
    }
    cover!(c != 0.0 && d != 0.0);
}

// ---------------------------------------------------------------- exp_m1, ln_1p at zero
#[cfg_attr(kani, kani::proof)]
#[cfg_attr(kani, kani::unwind(8))]
#[cfg_attr(kani, kani::stub(f64::exp_m1, uf::exp_m1))]
#[cfg_attr(kani, kani::stub(f64::exp, uf::exp))]
#[cfg_attr(kani, kani::stub(f64::ln_1p, uf::ln_1p))]
pub fn c10_expm1_ln1p_zero_dual3() {
    let (a, b, c) = (small_int64(4), small_int64(4), small_int64(4));
    let x = Dual3_64::new(zero_pm(), a, b, c);
    let y = x.exp_m1();
    assert!(y.re == 0.0 && y.v1 == a && y.v2 == b + a * a && y.v3 == c + 3.0 * a * b + a * a * a);
    let z = x.ln_1p();
    assert!(z.re == 0.0 && z.v1 == a && z.v2 == b - a * a && z.v3 == c - 3.0 * a * b + 2.0 * a * a * a);
    cover!(a != 0.0 && b != 0.0);
}

// ---------------------------------------------------------------- spherical Bessel at / next to zero
const TINY: [f64; 6] = [0.0, -0.0, 8.673617379884035e-19, -8.673617379884035e-19, 5e-324, -5e-324];
const ZERO_NEIGHBOURS: [f64; 4] = [0.0, -0.0, 5e-324, -5e-324];

/// third-order parts at and next to zero: the six points and the parts are concrete, CBMC
/// evaluates the IEEE arithmetic exactly (including the underflow of x*x for denormal x)
#[cfg_attr(kani, kani::proof)]
#[cfg_attr(kani, kani::unwind(8))]
#[cfg_attr(kani, kani::stub(f64::sin_cos, uf::sin_cos))]
pub fn c10_sph_j_zero_dual3() {
    let (a, b, c) = (1.0, 0.5, 0.25);
    for &x0 in TINY.iter() {
        let x = Dual3_64::new(x0, a, b, c);
        let j0 = x.sph_j0();
        assert!(near(j0.re, 1.0) && near(j0.v1, 0.0) && near(j0.v2, -a * a / 3.0) && near(j0.v3, -a * b));
        let j1 = x.sph_j1();
        assert!(near(j1.re, 0.0) && near(j1.v1, a / 3.0) && near(j1.v2, b / 3.0));
        assert!(near(j1.v3, c / 3.0 - a * a * a / 5.0));
        let j2 = x.sph_j2();
        assert!(near(j2.re, 0.0) && near(j2.v1, 0.0) && near(j2.v2, 2.0 * a * a / 15.0));
        assert!(near(j2.v3, 2.0 * a * b / 5.0));
    }
    cover!(true);
}

/// first-order part for every small integer seed, and the plain-float leaf
#[cfg_attr(kani, kani::proof)]
#[cfg_attr(kani, kani::unwind(8))]
#[cfg_attr(kani, kani::stub(f64::sin_cos, uf::sin_cos))]
#[cfg_attr(kani, kani::stub(f64::sin, uf::sin))]
pub fn c10_sph_j_zero_leaf_and_dual() {
    let e = small_int64(1000);
    for &x0 in TINY.iter() {
        assert!(near(DualNum::sph_j0(&x0), 1.0) && near(DualNum::sph_j1(&x0), 0.0) && near(DualNum::sph_j2(&x0), 0.0));
        let d = Dual64::new(x0, e);
        let j1 = d.sph_j1();
        assert!(near(j1.re, 0.0) && near(j1.eps, e / 3.0));
        let j0 = d.sph_j0();
        assert!(near(j0.re, 1.0) && near(j0.eps, 0.0));
        let j2 = d.sph_j2();
        assert!(near(j2.re, 0.0) && near(j2.eps, 0.0));
    }
    cover!(e != 0.0);
}

// ---------------------------------------------------------------- cylindrical Bessel at / next to zero
#[cfg_attr(kani, kani::proof)]
#[cfg_attr(kani, kani::unwind(10))]
pub fn c10_bessel_zero_dual3() {
    let (a, b, c) = (1.0, 0.5, 0.25);
    for &x0 in ZERO_NEIGHBOURS.iter() {
        let x = Dual3_64::new(x0, a, b, c);
        let j0 = x.bessel_j0();
        assert!(near(j0.re, 1.0) && near(j0.v1, 0.0) && near(j0.v2, -a * a / 2.0) && near(j0.v3, -3.0 * a * b / 2.0));
        let j1 = x.bessel_j1();
        assert!(near(j1.re, 0.0) && near(j1.v1, a / 2.0) && near(j1.v2, b / 2.0));
        assert!(near(j1.v3, c / 2.0 - 3.0 * a * a * a / 8.0));
        let j2 = x.bessel_j2();
        assert!(near(j2.re, 0.0) && near(j2.v1, 0.0) && near(j2.v2, a * a / 4.0) && near(j2.v3, 3.0 * a * b / 4.0));
    }
    cover!(true);
}

#[cfg_attr(kani, kani::proof)]
#[cfg_attr(kani, kani::unwind(10))]
pub fn c10_bessel_j0_j2_zero_dual() {
    let e = small_int64(1000);
    for &x0 in ZERO_NEIGHBOURS.iter() {
        let x = Dual64::new(x0, e);
        let j0 = x.bessel_j0();
        assert!(near(j0.re, 1.0) && near(j0.eps, 0.0));
        let j2 = x.bessel_j2();
        assert!(near(j2.re, 0.0) && near(j2.eps, 0.0));
    }
    cover!(e != 0.0);
}

pub const LIST: &[(&str, fn())] = &[
    ("c10_powi_zero_dual3", c10_powi_zero_dual3),
    ("c10_powi_zero_hyperhyperdual", c10_powi_zero_hyperhyperdual),
    ("c10_powi_zero_dualvec_hyperdual", c10_powi_zero_dualvec_hyperdual),
    ("c10_powf_zero_integer_exponent_dual3", c10_powf_zero_integer_exponent_dual3),
    ("c10_powf_zero_noninteger_above_order", c10_powf_zero_noninteger_above_order),
    ("c10_atan2_axis_dual64", c10_atan2_axis_dual64),
    ("c10_atan2_axis_dual2_dualvec", c10_atan2_axis_dual2_dualvec),
    ("c10_atan2_axis_nested_x_zero", c10_atan2_axis_nested_x_zero),
    ("c10_atan2_axis_nested_y_zero", c10_atan2_axis_nested_y_zero),
    ("c10_expm1_ln1p_zero_dual3", c10_expm1_ln1p_zero_dual3),
    ("c10_sph_j_zero_dual3", c10_sph_j_zero_dual3),
    ("c10_sph_j_zero_leaf_and_dual", c10_sph_j_zero_leaf_and_dual),
    ("c10_bessel_zero_dual3", c10_bessel_zero_dual3),
    ("c10_bessel_j0_j2_zero_dual", c10_bessel_j0_j2_zero_dual),
];
