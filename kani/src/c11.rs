//! C11: nalgebra RealField constants of the four field-compatible types have the bits of the
//! std constants and no derivative parts; selection methods keep the operand's parts.
use crate::util::*;
use nalgebra::{Const, RealField, ComplexField, SimdValue};
use num_dual::*;

macro_rules! consts_scalar {
    ($T:ty, $F:ident, $same:ident, [$($part:ident),*]) => {{
        macro_rules! one { ($m:ident, $c:expr) => {{
            let v = <$T as RealField>::$m();
            assert!($same(v.re, $c));
            $( assert!(v.$part == 0.0); )*
        }}; }
        one!(pi, std::$F::consts::PI);
        one!(two_pi, std::$F::consts::TAU);
        one!(frac_pi_2, std::$F::consts::FRAC_PI_2);
        one!(frac_pi_3, std::$F::consts::FRAC_PI_3);
        one!(frac_pi_4, std::$F::consts::FRAC_PI_4);
        one!(frac_pi_6, std::$F::consts::FRAC_PI_6);
        one!(frac_pi_8, std::$F::consts::FRAC_PI_8);
        one!(frac_1_pi, std::$F::consts::FRAC_1_PI);
        one!(frac_2_pi, std::$F::consts::FRAC_2_PI);
        one!(frac_2_sqrt_pi, std::$F::consts::FRAC_2_SQRT_PI);
        one!(e, std::$F::consts::E);
        one!(log2_e, std::$F::consts::LOG2_E);
        one!(log10_e, std::$F::consts::LOG10_E);
        one!(ln_2, std::$F::consts::LN_2);
        one!(ln_10, std::$F::consts::LN_10);
        let mn = <$T as RealField>::min_value().unwrap();
        let mx = <$T as RealField>::max_value().unwrap();
        assert!($same(mn.re, $F::MIN) && $same(mx.re, $F::MAX));
        $( assert!(mn.$part == 0.0 && mx.$part == 0.0); )*
    }};
}

macro_rules! consts_vec {
    ($T:ty, [$($part:ident),*]) => {{
        macro_rules! one { ($m:ident, $c:expr) => {{
            let v = <$T as RealField>::$m();
            assert!(same64(v.re, $c));
            $( assert!(v.$part == Derivative::none()); )*
        }}; }
        one!(pi, std::f64::consts::PI);
        one!(two_pi, std::f64::consts::TAU);
        one!(frac_pi_2, std::f64::consts::FRAC_PI_2);
        one!(frac_pi_3, std::f64::consts::FRAC_PI_3);
        one!(frac_pi_4, std::f64::consts::FRAC_PI_4);
        one!(frac_pi_6, std::f64::consts::FRAC_PI_6);
        one!(frac_pi_8, std::f64::consts::FRAC_PI_8);
        one!(frac_1_pi, std::f64::consts::FRAC_1_PI);
        one!(frac_2_pi, std::f64::consts::FRAC_2_PI);
        one!(frac_2_sqrt_pi, std::f64::consts::FRAC_2_SQRT_PI);
        one!(e, std::f64::consts::E);
        one!(log2_e, std::f64::consts::LOG2_E);
        one!(log10_e, std::f64::consts::LOG10_E);
        one!(ln_2, std::f64::consts::LN_2);
        one!(ln_10, std::f64::consts::LN_10);
        let mn = <$T as RealField>::min_value().unwrap();
        let mx = <$T as RealField>::max_value().unwrap();
        assert!(same64(mn.re, f64::MIN) && same64(mx.re, f64::MAX));
        $( assert!(mn.$part == Derivative::none() && mx.$part == Derivative::none()); )*
    }};
}

#[cfg_attr(kani, kani::proof)]
pub fn c11_consts_dual64() {
    consts_scalar!(Dual64, f64, same64, [eps]);
    cover!(true);
}
#[cfg_attr(kani, kani::proof)]
pub fn c11_consts_dual32() {
    consts_scalar!(Dual32, f32, same32, [eps]);
    cover!(true);
}
#[cfg_attr(kani, kani::proof)]
pub fn c11_consts_dual2_64() {
    consts_scalar!(Dual2_64, f64, same64, [v1, v2]);
    cover!(true);
}
#[cfg_attr(kani, kani::proof)]
pub fn c11_consts_dualvec64() {
    consts_vec!(DualVec<f64, f64, Const<2>>, [eps]);
    consts_vec!(DualVec<f64, f64, nalgebra::Dyn>, [eps]);
    cover!(true);
}
#[cfg_attr(kani, kani::proof)]
pub fn c11_consts_dual2vec64() {
    consts_vec!(Dual2Vec<f64, f64, Const<2>>, [v1, v2]);
    cover!(true);
}

/// copysign / abs / real / conjugate / from_real return the selected operand with its own parts;
/// the single-lane SIMD view round-trips every part
#[cfg_attr(kani, kani::proof)]
pub fn c11_selection_simd_dual64() {
    let a = Dual64::new(any_f64(), any_f64());
    let s = Dual64::new(any_f64(), any_f64());
    assume(!a.re.is_nan() && !s.re.is_nan());
    let c = RealField::copysign(a, s);
    let neg = a.re.is_sign_negative() != s.re.is_sign_negative();
    if neg {
        assert!(eq64(c.re, -a.re) && eq64(c.eps, -a.eps));
    } else {
        assert!(eq64(c.re, a.re) && eq64(c.eps, a.eps));
    }
    let r = ComplexField::real(a);
    assert!(same64(r.re, a.re) && same64(r.eps, a.eps));
    let r = ComplexField::conjugate(a);
    assert!(same64(r.re, a.re) && same64(r.eps, a.eps));
    let r = <Dual64 as ComplexField>::from_real(a);
    assert!(same64(r.re, a.re) && same64(r.eps, a.eps));
    let im = ComplexField::imaginary(a);
    assert!(im.re == 0.0 && im.eps == 0.0);
    // SimdValue with one lane
    assert!(<Dual64 as SimdValue>::LANES == 1);
    let sp = <Dual64 as SimdValue>::splat(a);
    assert!(same64(sp.re, a.re) && same64(sp.eps, a.eps));
    let ex = sp.extract(0);
    assert!(same64(ex.re, a.re) && same64(ex.eps, a.eps));
    let mut t = a;
    t.replace(0, s);
    assert!(same64(t.re, s.re) && same64(t.eps, s.eps));
    let sel = a.select(true, s);
    assert!(same64(sel.re, a.re) && same64(sel.eps, a.eps));
    let sel = a.select(false, s);
    assert!(same64(sel.re, s.re) && same64(sel.eps, s.eps));
    cover!(neg);
}

/// single-lane SIMD view of the vector types, every presence pattern of `self` and `val`:
/// after `replace(0, val)` the lane holds `val` (an absent part of `val` reads as zeros)
#[cfg_attr(kani, kani::proof)]
pub fn c11_simd_dualvec_presence() {
    use nalgebra::{SVector, U1};
    type V = DualVec<f64, f64, Const<2>>;
    let mk = |present: bool| -> V {
        let eps = if present {
            Derivative::some(SVector::<f64, 2>::new(any_f64(), any_f64()))
        } else {
            Derivative::none()
        };
        DualVec::new(any_f64(), eps)
    };
    let (ps, pv) = (any_bool(), any_bool());
    let x = mk(ps);
    let val = mk(pv);
    let ve = val.eps.clone().unwrap_generic(Const::<2>, U1);
    let mut t = x.clone();
    t.replace(0, val.clone());
    let got = t.extract(0);
    let ge = got.eps.clone().unwrap_generic(Const::<2>, U1);
    assert!(same64(got.re, val.re));
    assert!(eq64(ge[0], ve[0]) && eq64(ge[1], ve[1]));
    // splat / extract round trip and select
    let sp = <V as SimdValue>::splat(x.clone());
    let ex = sp.extract(0);
    let xe = x.eps.clone().unwrap_generic(Const::<2>, U1);
    let ee = ex.eps.clone().unwrap_generic(Const::<2>, U1);
    assert!(same64(ex.re, x.re) && eq64(ee[0], xe[0]) && eq64(ee[1], xe[1]));
    assert!((ex.eps == Derivative::none()) == !ps);
    let s1 = x.clone().select(true, val.clone());
    let s0 = x.clone().select(false, val.clone());
    assert!(same64(s1.re, x.re) && same64(s0.re, val.re));
    assert!((s1.eps == Derivative::none()) == !ps && (s0.eps == Derivative::none()) == !pv);
    cover!(ps && !pv);
    cover!(!ps && pv);
}

#[cfg_attr(kani, kani::proof)]
pub fn c11_simd_dual2vec_presence() {
    use nalgebra::{SMatrix, U1};
    type V = Dual2Vec<f64, f64, Const<2>>;
    let mk = |p1: bool, p2: bool| -> V {
        let v1 = if p1 { Derivative::some(SMatrix::<f64, 1, 2>::new(any_f64(), any_f64())) } else { Derivative::none() };
        let v2 = if p2 {
            Derivative::some(SMatrix::<f64, 2, 2>::new(any_f64(), any_f64(), any_f64(), any_f64()))
        } else {
            Derivative::none()
        };
        Dual2Vec::new(any_f64(), v1, v2)
    };
    let x = mk(any_bool(), any_bool());
    let val = mk(any_bool(), any_bool());
    let mut t = x.clone();
    t.replace(0, val.clone());
    let got = t.extract(0);
    let (g1, w1) = (got.v1.clone().unwrap_generic(U1, Const::<2>), val.v1.clone().unwrap_generic(U1, Const::<2>));
    let (g2, w2) = (got.v2.clone().unwrap_generic(Const::<2>, Const::<2>), val.v2.clone().unwrap_generic(Const::<2>, Const::<2>));
    assert!(same64(got.re, val.re));
    assert!(eq64(g1[0], w1[0]) && eq64(g1[1], w1[1]));
    assert!(eq64(g2[0], w2[0]) && eq64(g2[1], w2[1]) && eq64(g2[2], w2[2]) && eq64(g2[3], w2[3]));
    cover!(x.v2 != Derivative::none() && val.v2 == Derivative::none());
}

pub const LIST: &[(&str, fn())] = &[
    ("c11_simd_dualvec_presence", c11_simd_dualvec_presence),
    ("c11_simd_dual2vec_presence", c11_simd_dual2vec_presence),
    ("c11_consts_dual64", c11_consts_dual64),
    ("c11_consts_dual32", c11_consts_dual32),
    ("c11_consts_dual2_64", c11_consts_dual2_64),
    ("c11_consts_dualvec64", c11_consts_dualvec64),
    ("c11_consts_dual2vec64", c11_consts_dual2vec64),
    ("c11_selection_simd_dual64", c11_selection_simd_dual64),
];
