//! C11: nalgebra RealField constants of the four field-compatible types have the bits of the
//! std constants and no derivative parts; selection methods keep the operand's parts.
use crate::util::*;
use nalgebra::{Const, RealField, ComplexField, SimdValue};
use num_dual::*;

macro_rules! consts_scalar {
    ($T:ty, $F:ident, $same:ident, [$($part:ident),*]) => {{
        macro_rules! one { ($m:ident, $c:expr) => {{
            let v = <$T as RealField>::$m();
            assert!($same(v.re, $c));
            $( assert!(v.$part == 0.0); )*
        }}; }
        one!(pi, std::$F::consts::PI);
        one!(two_pi, std::$F::consts::TAU);
        one!(frac_pi_2, std::$F::consts::FRAC_PI_2);
        one!(frac_pi_3, std::$F::consts::FRAC_PI_3);
        one!(frac_pi_4, std::$F::consts::FRAC_PI_4);
        one!(frac_pi_6, std::$F::consts::FRAC_PI_6);
        one!(frac_pi_8, std::$F::consts::FRAC_PI_8);
        one!(frac_1_pi, std::$F::consts::FRAC_1_PI);
        one!(frac_2_pi, std::$F::consts::FRAC_2_PI);
        one!(frac_2_sqrt_pi, std::$F::consts::FRAC_2_SQRT_PI);
        one!(e, std::$F::consts::E);
        one!(log2_e, std::$F::consts::LOG2_E);
        one!(log10_e, std::$F::consts::LOG10_E);
        one!(ln_2, std::$F::consts::LN_2);
        one!(ln_10, std::$F::consts::LN_10);
        let mn = <$T as RealField>::min_value().unwrap();
        let mx = <$T as RealField>::max_value().unwrap();
        assert!($same(mn.re, $F::MIN) && $same(mx.re, $F::MAX));
        $( assert!(mn.$part == 0.0 && mx.$part == 0.0); )*
    }};
}

macro_rules! consts_vec {
    ($T:ty, [$($part:ident),*]) => {{
        macro_rules! one { ($m:ident, $c:expr) => {{
            let v = <$T as RealField>::$m();
            assert!(same64(v.re, $c));
            $( assert!(v.$part == Derivative::none()); )*
        }}; }
        one!(pi, std::f64::consts::PI);
        one!(two_pi, std::f64::consts::TAU);
        one!(frac_pi_2, std::f64::consts::FRAC_PI_2);
        one!(frac_pi_3, std::f64::consts::FRAC_PI_3);
        one!(frac_pi_4, std::f64::consts::FRAC_PI_4);
        one!(frac_pi_6, std::f64::consts::FRAC_PI_6);
        one!(frac_pi_8, std::f64::consts::FRAC_PI_8);
        one!(frac_1_pi, std::f64::consts::FRAC_1_PI);
        one!(frac_2_pi, std::f64::consts::FRAC_2_PI);
        one!(frac_2_sqrt_pi, std::f64::consts::FRAC_2_SQRT_PI);
        one!(e, std::f64::consts::E);
        one!(log2_e, std::f64::consts::LOG2_E);
        one!(log10_e, std::f64::consts::LOG10_E);
        one!(ln_2, std::f64::consts::LN_2);
        one!(ln_10, std::f64::consts::LN_10);
        let mn = <$T as RealField>::min_value().unwrap();
        let mx = <$T as RealField>::max_value().unwrap();
        assert!(same64(mn.re, f64::MIN) && same64(mx.re, f64::MAX));
        $( assert!(mn.$part == Derivative::none() && mx.$part == Derivative::none()); )*
    }};
}

#[cfg_attr(kani, kani::proof)]
pub fn c11_consts_dual64() {
    consts_scalar!(Dual64, f64, same64, [eps]);
    cover!(true);
}
#[cfg_attr(kani, kani::proof)]
pub fn c11_consts_dual32() {
    consts_scalar!(Dual32, f32, same32, [eps]);
    cover!(true);
}
#[cfg_attr(kani, kani::proof)]
pub fn c11_consts_dual2_64() {
    consts_scalar!(Dual2_64, f64, same64, [v1, v2]);
    cover!(true);
}
#[cfg_attr(kani, kani::proof)]
pub fn c11_consts_dualvec64() {
    consts_vec!(DualVec<f64, f64, Const<2>>, [eps]);
    consts_vec!(DualVec<f64, f64, nalgebra::Dyn>, [eps]);
    cover!(true);
}
#[cfg_attr(kani, kani::proof)]
pub fn c11_consts_dual2vec64() {
    consts_vec!(Dual2Vec<f64, f64, Const<2>>, [v1, v2]);
    cover!(true);
}

/// copysign / abs / real / conjugate / from_real return the selected operand with its own parts;
/// the single-lane SIMD view round-trips every part
#[cfg_attr(kani, kani::proof)]
pub fn c11_selection_simd_dual64() {
    let a = Dual64::new(any_f64(), any_f64());
    let s = Dual64::new(any_f64(), any_f64());
    assume(!a.re.is_nan() && !s.re.is_nan());
    let c = RealField::copysign(a, s);
    let neg = a.re.is_sign_negative() != s.re.is_sign_negative();
    if neg {
        assert!(eq64(c.re, -a.re) && eq64(c.eps, -a.eps));
    } else {
        assert!(eq64(c.re, a.re) && eq64(c.eps, a.eps));
    }
    let r = ComplexField::real(a);
    assert!(same64(r.re, a.re) && same64(r.eps, a.eps));
    let r = ComplexField::conjugate(a);
    assert!(same64(r.re, a.re) && same64(r.eps, a.eps));
    let r = <Dual64 as ComplexField>::from_real(a);
    assert!(same64(r.re, a.re) && same64(r.eps, a.eps));
    let im = ComplexField::imaginary(a);
    assert!(im.re == 0.0 && im.eps == 0.0);
    // SimdValue with one lane
    assert!(<Dual64 as SimdValue>::LANES == 1);
    let sp = <Dual64 as SimdValue>::splat(a);
    assert!(same64(sp.re, a.re) && same64(sp.eps, a.eps));
    let ex = sp.extract(0);
    assert!(same64(ex.re, a.re) && same64(ex.eps, a.eps));
    let mut t = a;
    t.replace(0, s);
    assert!(same64(t.re, s.re) && same64(t.eps, s.eps));
    let sel = a.select(true, s);
    assert!(same64(sel.re, a.re) && same64(sel.eps, a.eps));
    let sel = a.select(false, s);
    assert!(same64(sel.re, s.re) && same64(sel.eps, s.eps));
    cover!(neg);
}

/// single-lane SIMD view of the vector types, every presence pattern of `self` and `val`:
/// after `replace(0, val)` the lane holds `val` (an absent part of `val` reads as zeros)
#[cfg_attr(kani, kani::proof)]
pub fn c11_simd_dualvec_presence() {
    use nalgebra::{SVector, U1};
    type V = DualVec<f64, f64, Const<2>>;
    let mk = |present: bool| -> V {
        let eps = if present {
            Derivative::some(SVector::<f64, 2>::new(any_f64(), any_f64()))
        } else {
            Derivative::none()
        };
        DualVec::new(any_f64(), eps)
    };
    let (ps, pv) = (any_bool(), any_bool());
    let x = mk(ps);
    let val = mk(pv);
    let ve = val.eps.clone().unwrap_generic(Const::<2>, U1);
    let mut t = x.clone();
    t.replace(0, val.clone());
    let got = t.extract(0);
    let ge = got.eps.clone().unwrap_generic(Const::<2>, U1);
    assert!(same64(got.re, val.re));
    assert!(eq64(ge[0], ve[0]) && eq64(ge[1], ve[1]));
    // splat / extract round trip and select
    let sp = <V as SimdValue>::splat(x.clone());
    let ex = sp.extract(0);
    let xe = x.eps.clone().unwrap_generic(Const::<2>, U1);
    let ee = ex.eps.clone().unwrap_generic(Const::<2>, U1);
    assert!(same64(ex.re, x.re) && eq64(ee[0], xe[0]) && eq64(ee[1], xe[1]));
    assert!((ex.eps == Derivative::none()) == !ps);
    let s1 = x.clone().select(true, val.clone());
    let s0 = x.clone().select(false, val.clone());
    assert!(same64(s1.re, x.re) && same64(s0.re, val.re));
    assert!((s1.eps == Derivative::none()) == !ps && (s0.eps == Derivative::none()) == !pv);
    cover!(ps && !pv);
    cover!(!ps && pv);
}

#[cfg_attr(kani, kani::proof)]
pub fn c11_simd_dual2vec_presence() {
    use nalgebra::{SMatrix, U1};
    type V = Dual2Vec<f64, f64, Const<2>>;
    let mk = |p1: bool, p2: bool| -> V {
        let v1 = if p1 { Derivative::some(SMatrix::<f64, 1, 2>::new(any_f64(), any_f64())) } else { Derivative::none() };
        let v2 = if p2 {
            Derivative::some(SMatrix::<f64, 2, 2>::new(any_f64(), any_f64(), any_f64(), any_f64()))
        } else {
            Derivative::none()
        };
        Dual2Vec::new(any_f64(), v1, v2)
    };
    let x = mk(any_bool(), any_bool());
    let val = mk(any_bool(), any_bool());
    let mut t = x.clone();
    t.replace(0, val.clone());
    let got = t.extract(0);
    let (g1, w1) = (got.v1.clone().unwrap_generic(U1, Const::<2>), val.v1.clone().unwrap_generic(U1, Const::<2>));
    let (g2, w2) = (got.v2.clone().unwrap_generic(Const::<2>, Const::<2>), val.v2.clone().unwrap_generic(Const::<2>, Const::<2>));
    assert!(same64(got.re, val.re));
    assert!(eq64(g1[0], w1[0]) && eq64(g1[1], w1[1]));
    assert!(eq64(g2[0], w2[0]) && eq64(g2[1], w2[1]) && eq64(g2[2], w2[2]) && eq64(g2[3], w2[3]));
    cover!(x.v2 != Derivative::none() && val.v2 == Derivative::none());
}


// ---------------------------------------------------------------------------------------------
// field methods forward to the generic dual operations (bit-identical under UF stubs: a method
// forwarded to the wrong operation hits a different uninterpreted function)
// ---------------------------------------------------------------------------------------------
macro_rules! fwd_harness {
    ($name:ident, $T:ty, $mk:expr, $same:expr, [$($stub:meta),*], [$($m:ident),*]) => {
        #[cfg_attr(kani, kani::proof)]
        #[cfg_attr(kani, kani::unwind(14))]
        $( #[cfg_attr(kani, $stub)] )*
        pub fn $name() {
            let x: $T = $mk;
            $(
                let a = <$T as ComplexField>::$m(x.clone());
                let b = DualNum::$m(&x);
                assert!($same(&a, &b));
            )*
            cover!(true);
        }
    };
}

fn mk_dual() -> Dual64 {
    // a concrete evaluation point (chosen among a few): the libm results stay symbolic (UF), the
    // float arithmetic around them is mostly constant-folded by CBMC
    let r = 0.5;
    // unit seed: the parts of the result are then the derivative values themselves and no
    // symbolic x symbolic multiplication enters the model
    Dual64::new(r, 1.0)
}
fn same_dual(a: &Dual64, b: &Dual64) -> bool {
    eq64(a.re, b.re) && eq64(a.eps, b.eps)
}
fn mk_dual2() -> Dual2_64 {
    let r = 0.5;
    Dual2_64::new(r, 1.0, 0.0)
}
fn same_dual2(a: &Dual2_64, b: &Dual2_64) -> bool {
    eq64(a.re, b.re) && eq64(a.v1, b.v1) && eq64(a.v2, b.v2)
}
fn mk_dvec() -> DualVec<f64, f64, Const<2>> {
    let r = 0.5;
    let eps = if any_bool() {
        Derivative::some(nalgebra::SVector::<f64, 2>::new(1.0, 0.0))
    } else {
        Derivative::none()
    };
    DualVec::new(r, eps)
}
fn same_dvec(a: &DualVec<f64, f64, Const<2>>, b: &DualVec<f64, f64, Const<2>>) -> bool {
    use nalgebra::U1;
    let (ea, eb) = (a.eps.clone().unwrap_generic(Const::<2>, U1), b.eps.clone().unwrap_generic(Const::<2>, U1));
    eq64(a.re, b.re) && (a.eps == Derivative::none()) == (b.eps == Derivative::none()) && eq64(ea[0], eb[0]) && eq64(ea[1], eb[1])
}

fwd_harness!(c11_fwd_dual_trig, Dual64, mk_dual(), same_dual,
    [kani::stub(f64::sin_cos, uf::sin_cos), kani::stub(f64::asin, uf::asin), kani::stub(f64::acos, uf::acos), kani::stub(f64::atan, uf::atan)],
    [sin, cos, asin, acos, atan]);
fwd_harness!(c11_fwd_dual_hyp, Dual64, mk_dual(), same_dual,
    [kani::stub(f64::sinh, uf::sinh), kani::stub(f64::cosh, uf::cosh), kani::stub(f64::asinh, uf::asinh), kani::stub(f64::atanh, uf::atanh)],
    [sinh, cosh, asinh, atanh]);
fwd_harness!(c11_fwd_dual_exp, Dual64, mk_dual(), same_dual,
    [kani::stub(f64::exp, uf::exp), kani::stub(f64::exp_m1, uf::exp_m1)],
    [exp, exp_m1]);
fwd_harness!(c11_fwd_dual_ln, Dual64, mk_dual(), same_dual,
    [kani::stub(f64::ln, uf::ln), kani::stub(f64::ln_1p, uf::ln_1p)],
    [ln, ln_1p]);
fwd_harness!(c11_fwd_dual_base2_10, Dual64, mk_dual(), same_dual,
    [kani::stub(f64::ln, tag::ln), kani::stub(f64::exp2, tag::exp2), kani::stub(f64::log2, tag::log2), kani::stub(f64::log10, tag::log10)],
    [exp2, log2, log10]);
fwd_harness!(c11_fwd_dual2_a, Dual2_64, mk_dual2(), same_dual2,
    [kani::stub(f64::sin_cos, uf::sin_cos), kani::stub(f64::exp, uf::exp)],
    [sin, cos, exp]);
fwd_harness!(c11_fwd_dual2_b, Dual2_64, mk_dual2(), same_dual2,
    [kani::stub(f64::sinh, uf::sinh), kani::stub(f64::cosh, uf::cosh), kani::stub(f64::ln, uf::ln)],
    [sinh, cosh, ln]);
fwd_harness!(c11_fwd_dualvec_a, DualVec<f64, f64, Const<2>>, mk_dvec(), same_dvec,
    [kani::stub(f64::sin_cos, uf::sin_cos), kani::stub(f64::exp, uf::exp), kani::stub(f64::atan, uf::atan)],
    [sin, cos, exp, atan]);
fwd_harness!(c11_fwd_dualvec_b, DualVec<f64, f64, Const<2>>, mk_dvec(), same_dvec,
    [kani::stub(f64::cosh, uf::cosh), kani::stub(f64::sinh, uf::sinh), kani::stub(f64::ln_1p, uf::ln_1p)],
    [cosh, sinh, ln_1p]);

/// powi forwards to the generic integer power
#[cfg_attr(kani, kani::proof)]
#[cfg_attr(kani, kani::unwind(14))]
#[cfg_attr(kani, kani::stub(f64::powi, tag::powi))]
pub fn c11_fwd_dual_powi() {
    let x = mk_dual();
    for n in [-3, 0, 1, 2, 5] {
        assert!(same_dual(&ComplexField::powi(x, n), &DualNum::powi(&x, n)));
    }
    cover!(true);
}

/// log to a dual base = ln/ln, power with a dual exponent = powd
#[cfg_attr(kani, kani::proof)]
#[cfg_attr(kani, kani::unwind(14))]
#[cfg_attr(kani, kani::stub(f64::ln, tag::ln))]
#[cfg_attr(kani, kani::stub(f64::exp, tag::exp))]
pub fn c11_fwd_dual_log_powf() {
    let x = mk_dual();
    let y = Dual64::new(2.0, 0.0);
    assert!(same_dual(&ComplexField::log(x, y), &(DualNum::ln(&x) / DualNum::ln(&y))));
    assert!(same_dual(&ComplexField::powf(x, y), &DualNum::powd(&x, y)));
    assert!(same_dual(&ComplexField::powc(x, y), &DualNum::powd(&x, y)));
    cover!(true);
}

#[cfg_attr(kani, kani::proof)]
pub fn c11_fwd_dual_simple() {
    let x = mk_dual();
    let y = Dual64::new(4.0, 1.0);
    assume(!x.re.is_nan());
    assert!(same_dual(&ComplexField::recip(x), &DualNum::recip(&x)));
    assert!(same_dual(&ComplexField::scale(x, y), &(x * y)));
    assert!(same_dual(&ComplexField::unscale(x, y), &(x / y)));
    assert!(same_dual(&ComplexField::modulus(x), &num_traits::Signed::abs(&x)));
    assert!(same_dual(&ComplexField::norm1(x), &num_traits::Signed::abs(&x)));
    assert!(same_dual(&ComplexField::abs(x), &num_traits::Signed::abs(&x)));
    assert!(same_dual(&ComplexField::modulus_squared(x), &(x * x)));
    assert!(same_dual(&ComplexField::mul_add(x, y, y), &DualNum::mul_add(&x, y, y)));
    assert!(ComplexField::is_finite(&x) == x.re.is_finite());
    let arg = ComplexField::argument(x);
    assert!(arg.re == 0.0 && arg.eps == 0.0);
    cover!(true);
}

fn same_d2v(a: &Dual2Vec<f64, f64, Const<1>>, b: &Dual2Vec<f64, f64, Const<1>>) -> bool {
    use nalgebra::U1;
    let (a1, b1) = (a.v1.clone().unwrap_generic(U1, Const::<1>), b.v1.clone().unwrap_generic(U1, Const::<1>));
    let (a2, b2) = (a.v2.clone().unwrap_generic(Const::<1>, Const::<1>), b.v2.clone().unwrap_generic(Const::<1>, Const::<1>));
    eq64(a.re, b.re) && eq64(a1[0], b1[0]) && eq64(a2[0], b2[0])
}
fn mk_d2v() -> Dual2Vec<f64, f64, Const<1>> {
    Dual2Vec::new(
        0.5,
        Derivative::some(nalgebra::SMatrix::<f64, 1, 1>::new(1.5)),
        Derivative::some(nalgebra::SMatrix::<f64, 1, 1>::new(-0.25)),
    )
}
fn mk_dvec_c() -> DualVec<f64, f64, Const<2>> {
    DualVec::new(0.5, Derivative::some(nalgebra::SVector::<f64, 2>::new(1.0, -0.5)))
}



// ---- all field methods on the four field-compatible types, tag stubs (concrete execution);
// generated text: 4 types x 4 parts
#[cfg_attr(kani, kani::proof)]
#[cfg_attr(kani, kani::unwind(8))]
#[cfg_attr(kani, kani::stub(f64::sin_cos, tag::sin_cos))]
#[cfg_attr(kani, kani::stub(f64::asin, tag::asin))]
#[cfg_attr(kani, kani::stub(f64::acos, tag::acos))]
#[cfg_attr(kani, kani::stub(f64::atan, tag::atan))]
#[cfg_attr(kani, kani::stub(f64::sinh, tag::sinh))]
#[cfg_attr(kani, kani::stub(f64::cosh, tag::cosh))]
#[cfg_attr(kani, kani::stub(f64::asinh, tag::asinh))]
#[cfg_attr(kani, kani::stub(f64::acosh, tag::acosh))]
#[cfg_attr(kani, kani::stub(f64::atanh, tag::atanh))]
#[cfg_attr(kani, kani::stub(f64::exp, tag::exp))]
#[cfg_attr(kani, kani::stub(f64::exp2, tag::exp2))]
#[cfg_attr(kani, kani::stub(f64::exp_m1, tag::exp_m1))]
#[cfg_attr(kani, kani::stub(f64::ln, tag::ln))]
#[cfg_attr(kani, kani::stub(f64::ln_1p, tag::ln_1p))]
#[cfg_attr(kani, kani::stub(f64::log2, tag::log2))]
#[cfg_attr(kani, kani::stub(f64::log10, tag::log10))]
#[cfg_attr(kani, kani::stub(f64::cbrt, tag::cbrt))]
#[cfg_attr(kani, kani::stub(f64::powi, tag::powi))]
#[cfg_attr(kani, kani::stub(f64::atan2, tag::atan2))]
pub fn c11_fwdtag_dual64_u0() {
    let x: Dual64 = Dual64::new(0.5, 1.5);
    assert!(same_dual(&<Dual64 as ComplexField>::sin(x.clone()), &DualNum::sin(&x)));
    assert!(same_dual(&<Dual64 as ComplexField>::cos(x.clone()), &DualNum::cos(&x)));
    assert!(same_dual(&<Dual64 as ComplexField>::tan(x.clone()), &DualNum::tan(&x)));
    assert!(same_dual(&<Dual64 as ComplexField>::asin(x.clone()), &DualNum::asin(&x)));
    assert!(same_dual(&<Dual64 as ComplexField>::acos(x.clone()), &DualNum::acos(&x)));
    assert!(same_dual(&<Dual64 as ComplexField>::atan(x.clone()), &DualNum::atan(&x)));
    cover!(true);
}

#[cfg_attr(kani, kani::proof)]
#[cfg_attr(kani, kani::unwind(8))]
#[cfg_attr(kani, kani::stub(f64::sin_cos, tag::sin_cos))]
#[cfg_attr(kani, kani::stub(f64::asin, tag::asin))]
#[cfg_attr(kani, kani::stub(f64::acos, tag::acos))]
#[cfg_attr(kani, kani::stub(f64::atan, tag::atan))]
#[cfg_attr(kani, kani::stub(f64::sinh, tag::sinh))]
#[cfg_attr(kani, kani::stub(f64::cosh, tag::cosh))]
#[cfg_attr(kani, kani::stub(f64::asinh, tag::asinh))]
#[cfg_attr(kani, kani::stub(f64::acosh, tag::acosh))]
#[cfg_attr(kani, kani::stub(f64::atanh, tag::atanh))]
#[cfg_attr(kani, kani::stub(f64::exp, tag::exp))]
#[cfg_attr(kani, kani::stub(f64::exp2, tag::exp2))]
#[cfg_attr(kani, kani::stub(f64::exp_m1, tag::exp_m1))]
#[cfg_attr(kani, kani::stub(f64::ln, tag::ln))]
#[cfg_attr(kani, kani::stub(f64::ln_1p, tag::ln_1p))]
#[cfg_attr(kani, kani::stub(f64::log2, tag::log2))]
#[cfg_attr(kani, kani::stub(f64::log10, tag::log10))]
#[cfg_attr(kani, kani::stub(f64::cbrt, tag::cbrt))]
#[cfg_attr(kani, kani::stub(f64::powi, tag::powi))]
#[cfg_attr(kani, kani::stub(f64::atan2, tag::atan2))]
pub fn c11_fwdtag_dual64_u1() {
    let x: Dual64 = Dual64::new(0.5, 1.5);
    assert!(same_dual(&<Dual64 as ComplexField>::sinh(x.clone()), &DualNum::sinh(&x)));
    assert!(same_dual(&<Dual64 as ComplexField>::cosh(x.clone()), &DualNum::cosh(&x)));
    assert!(same_dual(&<Dual64 as ComplexField>::tanh(x.clone()), &DualNum::tanh(&x)));
    assert!(same_dual(&<Dual64 as ComplexField>::asinh(x.clone()), &DualNum::asinh(&x)));
    assert!(same_dual(&<Dual64 as ComplexField>::atanh(x.clone()), &DualNum::atanh(&x)));
    assert!(same_dual(&<Dual64 as ComplexField>::sqrt(x.clone()), &DualNum::sqrt(&x)));
    assert!(same_dual(&<Dual64 as ComplexField>::recip(x.clone()), &DualNum::recip(&x)));
    cover!(true);
}

#[cfg_attr(kani, kani::proof)]
#[cfg_attr(kani, kani::unwind(8))]
#[cfg_attr(kani, kani::stub(f64::sin_cos, tag::sin_cos))]
#[cfg_attr(kani, kani::stub(f64::asin, tag::asin))]
#[cfg_attr(kani, kani::stub(f64::acos, tag::acos))]
#[cfg_attr(kani, kani::stub(f64::atan, tag::atan))]
#[cfg_attr(kani, kani::stub(f64::sinh, tag::sinh))]
#[cfg_attr(kani, kani::stub(f64::cosh, tag::cosh))]
#[cfg_attr(kani, kani::stub(f64::asinh, tag::asinh))]
#[cfg_attr(kani, kani::stub(f64::acosh, tag::acosh))]
#[cfg_attr(kani, kani::stub(f64::atanh, tag::atanh))]
#[cfg_attr(kani, kani::stub(f64::exp, tag::exp))]
#[cfg_attr(kani, kani::stub(f64::exp2, tag::exp2))]
#[cfg_attr(kani, kani::stub(f64::exp_m1, tag::exp_m1))]
#[cfg_attr(kani, kani::stub(f64::ln, tag::ln))]
#[cfg_attr(kani, kani::stub(f64::ln_1p, tag::ln_1p))]
#[cfg_attr(kani, kani::stub(f64::log2, tag::log2))]
#[cfg_attr(kani, kani::stub(f64::log10, tag::log10))]
#[cfg_attr(kani, kani::stub(f64::cbrt, tag::cbrt))]
#[cfg_attr(kani, kani::stub(f64::powi, tag::powi))]
#[cfg_attr(kani, kani::stub(f64::atan2, tag::atan2))]
pub fn c11_fwdtag_dual64_u2() {
    let x: Dual64 = Dual64::new(0.5, 1.5);
    assert!(same_dual(&<Dual64 as ComplexField>::exp(x.clone()), &DualNum::exp(&x)));
    assert!(same_dual(&<Dual64 as ComplexField>::exp2(x.clone()), &DualNum::exp2(&x)));
    assert!(same_dual(&<Dual64 as ComplexField>::exp_m1(x.clone()), &DualNum::exp_m1(&x)));
    assert!(same_dual(&<Dual64 as ComplexField>::ln(x.clone()), &DualNum::ln(&x)));
    assert!(same_dual(&<Dual64 as ComplexField>::ln_1p(x.clone()), &DualNum::ln_1p(&x)));
    assert!(same_dual(&<Dual64 as ComplexField>::log2(x.clone()), &DualNum::log2(&x)));
    assert!(same_dual(&<Dual64 as ComplexField>::log10(x.clone()), &DualNum::log10(&x)));
    assert!(same_dual(&<Dual64 as ComplexField>::cbrt(x.clone()), &DualNum::cbrt(&x)));
    cover!(true);
}

#[cfg_attr(kani, kani::proof)]
#[cfg_attr(kani, kani::unwind(8))]
#[cfg_attr(kani, kani::stub(f64::sin_cos, tag::sin_cos))]
#[cfg_attr(kani, kani::stub(f64::asin, tag::asin))]
#[cfg_attr(kani, kani::stub(f64::acos, tag::acos))]
#[cfg_attr(kani, kani::stub(f64::atan, tag::atan))]
#[cfg_attr(kani, kani::stub(f64::sinh, tag::sinh))]
#[cfg_attr(kani, kani::stub(f64::cosh, tag::cosh))]
#[cfg_attr(kani, kani::stub(f64::asinh, tag::asinh))]
#[cfg_attr(kani, kani::stub(f64::acosh, tag::acosh))]
#[cfg_attr(kani, kani::stub(f64::atanh, tag::atanh))]
#[cfg_attr(kani, kani::stub(f64::exp, tag::exp))]
#[cfg_attr(kani, kani::stub(f64::exp2, tag::exp2))]
#[cfg_attr(kani, kani::stub(f64::exp_m1, tag::exp_m1))]
#[cfg_attr(kani, kani::stub(f64::ln, tag::ln))]
#[cfg_attr(kani, kani::stub(f64::ln_1p, tag::ln_1p))]
#[cfg_attr(kani, kani::stub(f64::log2, tag::log2))]
#[cfg_attr(kani, kani::stub(f64::log10, tag::log10))]
#[cfg_attr(kani, kani::stub(f64::cbrt, tag::cbrt))]
#[cfg_attr(kani, kani::stub(f64::powi, tag::powi))]
#[cfg_attr(kani, kani::stub(f64::atan2, tag::atan2))]
pub fn c11_fwdtag_dual64_bina() {
    let x: Dual64 = Dual64::new(0.5, 1.5);
    let y: Dual64 = x.clone() + <Dual64 as num_traits::One>::one() + <Dual64 as num_traits::One>::one();   // base / second operand with non-zero derivative parts
    let (s1, c1) = <Dual64 as ComplexField>::sin_cos(x.clone());
    let (s2, c2) = DualNum::sin_cos(&x);
    assert!(same_dual(&s1, &s2) && same_dual(&c1, &c2));
    assert!(same_dual(&<Dual64 as ComplexField>::powi(x.clone(), 3), &DualNum::powi(&x, 3)));
    assert!(same_dual(&<Dual64 as ComplexField>::log(x.clone(), y.clone()), &(DualNum::ln(&x) / DualNum::ln(&y))));
    assert!(same_dual(&<Dual64 as RealField>::atan2(x.clone(), y.clone()), &DualNum::atan2(&x, y.clone())));
    let ts = <Dual64 as ComplexField>::try_sqrt(x.clone());
    assert!(ts.is_some() && same_dual(&ts.unwrap(), &DualNum::sqrt(&x)));
    cover!(true);
}

#[cfg_attr(kani, kani::proof)]
#[cfg_attr(kani, kani::unwind(8))]
#[cfg_attr(kani, kani::stub(f64::sin_cos, tag::sin_cos))]
#[cfg_attr(kani, kani::stub(f64::asin, tag::asin))]
#[cfg_attr(kani, kani::stub(f64::acos, tag::acos))]
#[cfg_attr(kani, kani::stub(f64::atan, tag::atan))]
#[cfg_attr(kani, kani::stub(f64::sinh, tag::sinh))]
#[cfg_attr(kani, kani::stub(f64::cosh, tag::cosh))]
#[cfg_attr(kani, kani::stub(f64::asinh, tag::asinh))]
#[cfg_attr(kani, kani::stub(f64::acosh, tag::acosh))]
#[cfg_attr(kani, kani::stub(f64::atanh, tag::atanh))]
#[cfg_attr(kani, kani::stub(f64::exp, tag::exp))]
#[cfg_attr(kani, kani::stub(f64::exp2, tag::exp2))]
#[cfg_attr(kani, kani::stub(f64::exp_m1, tag::exp_m1))]
#[cfg_attr(kani, kani::stub(f64::ln, tag::ln))]
#[cfg_attr(kani, kani::stub(f64::ln_1p, tag::ln_1p))]
#[cfg_attr(kani, kani::stub(f64::log2, tag::log2))]
#[cfg_attr(kani, kani::stub(f64::log10, tag::log10))]
#[cfg_attr(kani, kani::stub(f64::cbrt, tag::cbrt))]
#[cfg_attr(kani, kani::stub(f64::powi, tag::powi))]
#[cfg_attr(kani, kani::stub(f64::atan2, tag::atan2))]
pub fn c11_fwdtag_dual64_binb_slow() {
    let x: Dual64 = Dual64::new(0.5, 1.5);
    let y: Dual64 = x.clone() + <Dual64 as num_traits::One>::one() + <Dual64 as num_traits::One>::one();   // base / second operand with non-zero derivative parts
    assert!(same_dual(&<Dual64 as ComplexField>::powf(x.clone(), y.clone()), &DualNum::powd(&x, y.clone())));
    assert!(same_dual(&<Dual64 as ComplexField>::powc(x.clone(), y.clone()), &DualNum::powd(&x, y.clone())));
    assert!(same_dual(&<Dual64 as ComplexField>::hypot(x.clone(), y.clone()),
        &DualNum::sqrt(&(DualNum::powi(&x, 2) + DualNum::powi(&y, 2)))));
    assert!(same_dual(&<Dual64 as ComplexField>::scale(x.clone(), y.clone()), &(x.clone() * y.clone())));
    assert!(same_dual(&<Dual64 as ComplexField>::unscale(x.clone(), y.clone()), &(x.clone() / y.clone())));
    assert!(same_dual(&<Dual64 as ComplexField>::mul_add(x.clone(), y.clone(), y.clone()), &DualNum::mul_add(&x, y.clone(), y.clone())));
    cover!(true);
}

#[cfg_attr(kani, kani::proof)]
#[cfg_attr(kani, kani::unwind(8))]
#[cfg_attr(kani, kani::stub(f64::sin_cos, tag::sin_cos))]
#[cfg_attr(kani, kani::stub(f64::asin, tag::asin))]
#[cfg_attr(kani, kani::stub(f64::acos, tag::acos))]
#[cfg_attr(kani, kani::stub(f64::atan, tag::atan))]
#[cfg_attr(kani, kani::stub(f64::sinh, tag::sinh))]
#[cfg_attr(kani, kani::stub(f64::cosh, tag::cosh))]
#[cfg_attr(kani, kani::stub(f64::asinh, tag::asinh))]
#[cfg_attr(kani, kani::stub(f64::acosh, tag::acosh))]
#[cfg_attr(kani, kani::stub(f64::atanh, tag::atanh))]
#[cfg_attr(kani, kani::stub(f64::exp, tag::exp))]
#[cfg_attr(kani, kani::stub(f64::exp2, tag::exp2))]
#[cfg_attr(kani, kani::stub(f64::exp_m1, tag::exp_m1))]
#[cfg_attr(kani, kani::stub(f64::ln, tag::ln))]
#[cfg_attr(kani, kani::stub(f64::ln_1p, tag::ln_1p))]
#[cfg_attr(kani, kani::stub(f64::log2, tag::log2))]
#[cfg_attr(kani, kani::stub(f64::log10, tag::log10))]
#[cfg_attr(kani, kani::stub(f64::cbrt, tag::cbrt))]
#[cfg_attr(kani, kani::stub(f64::powi, tag::powi))]
#[cfg_attr(kani, kani::stub(f64::atan2, tag::atan2))]
pub fn c11_fwdtag_dual2_64_u0() {
    let x: Dual2_64 = Dual2_64::new(0.5, 1.5, -0.25);
    assert!(same_dual2(&<Dual2_64 as ComplexField>::sin(x.clone()), &DualNum::sin(&x)));
    assert!(same_dual2(&<Dual2_64 as ComplexField>::cos(x.clone()), &DualNum::cos(&x)));
    assert!(same_dual2(&<Dual2_64 as ComplexField>::tan(x.clone()), &DualNum::tan(&x)));
    assert!(same_dual2(&<Dual2_64 as ComplexField>::asin(x.clone()), &DualNum::asin(&x)));
    assert!(same_dual2(&<Dual2_64 as ComplexField>::acos(x.clone()), &DualNum::acos(&x)));
    assert!(same_dual2(&<Dual2_64 as ComplexField>::atan(x.clone()), &DualNum::atan(&x)));
    cover!(true);
}

#[cfg_attr(kani, kani::proof)]
#[cfg_attr(kani, kani::unwind(8))]
#[cfg_attr(kani, kani::stub(f64::sin_cos, tag::sin_cos))]
#[cfg_attr(kani, kani::stub(f64::asin, tag::asin))]
#[cfg_attr(kani, kani::stub(f64::acos, tag::acos))]
#[cfg_attr(kani, kani::stub(f64::atan, tag::atan))]
#[cfg_attr(kani, kani::stub(f64::sinh, tag::sinh))]
#[cfg_attr(kani, kani::stub(f64::cosh, tag::cosh))]
#[cfg_attr(kani, kani::stub(f64::asinh, tag::asinh))]
#[cfg_attr(kani, kani::stub(f64::acosh, tag::acosh))]
#[cfg_attr(kani, kani::stub(f64::atanh, tag::atanh))]
#[cfg_attr(kani, kani::stub(f64::exp, tag::exp))]
#[cfg_attr(kani, kani::stub(f64::exp2, tag::exp2))]
#[cfg_attr(kani, kani::stub(f64::exp_m1, tag::exp_m1))]
#[cfg_attr(kani, kani::stub(f64::ln, tag::ln))]
#[cfg_attr(kani, kani::stub(f64::ln_1p, tag::ln_1p))]
#[cfg_attr(kani, kani::stub(f64::log2, tag::log2))]
#[cfg_attr(kani, kani::stub(f64::log10, tag::log10))]
#[cfg_attr(kani, kani::stub(f64::cbrt, tag::cbrt))]
#[cfg_attr(kani, kani::stub(f64::powi, tag::powi))]
#[cfg_attr(kani, kani::stub(f64::atan2, tag::atan2))]
pub fn c11_fwdtag_dual2_64_u1() {
    let x: Dual2_64 = Dual2_64::new(0.5, 1.5, -0.25);
    assert!(same_dual2(&<Dual2_64 as ComplexField>::sinh(x.clone()), &DualNum::sinh(&x)));
    assert!(same_dual2(&<Dual2_64 as ComplexField>::cosh(x.clone()), &DualNum::cosh(&x)));
    assert!(same_dual2(&<Dual2_64 as ComplexField>::tanh(x.clone()), &DualNum::tanh(&x)));
    assert!(same_dual2(&<Dual2_64 as ComplexField>::asinh(x.clone()), &DualNum::asinh(&x)));
    assert!(same_dual2(&<Dual2_64 as ComplexField>::atanh(x.clone()), &DualNum::atanh(&x)));
    assert!(same_dual2(&<Dual2_64 as ComplexField>::sqrt(x.clone()), &DualNum::sqrt(&x)));
    assert!(same_dual2(&<Dual2_64 as ComplexField>::recip(x.clone()), &DualNum::recip(&x)));
    cover!(true);
}

#[cfg_attr(kani, kani::proof)]
#[cfg_attr(kani, kani::unwind(8))]
#[cfg_attr(kani, kani::stub(f64::sin_cos, tag::sin_cos))]
#[cfg_attr(kani, kani::stub(f64::asin, tag::asin))]
#[cfg_attr(kani, kani::stub(f64::acos, tag::acos))]
#[cfg_attr(kani, kani::stub(f64::atan, tag::atan))]
#[cfg_attr(kani, kani::stub(f64::sinh, tag::sinh))]
#[cfg_attr(kani, kani::stub(f64::cosh, tag::cosh))]
#[cfg_attr(kani, kani::stub(f64::asinh, tag::asinh))]
#[cfg_attr(kani, kani::stub(f64::acosh, tag::acosh))]
#[cfg_attr(kani, kani::stub(f64::atanh, tag::atanh))]
#[cfg_attr(kani, kani::stub(f64::exp, tag::exp))]
#[cfg_attr(kani, kani::stub(f64::exp2, tag::exp2))]
#[cfg_attr(kani, kani::stub(f64::exp_m1, tag::exp_m1))]
#[cfg_attr(kani, kani::stub(f64::ln, tag::ln))]
#[cfg_attr(kani, kani::stub(f64::ln_1p, tag::ln_1p))]
#[cfg_attr(kani, kani::stub(f64::log2, tag::log2))]
#[cfg_attr(kani, kani::stub(f64::log10, tag::log10))]
#[cfg_attr(kani, kani::stub(f64::cbrt, tag::cbrt))]
#[cfg_attr(kani, kani::stub(f64::powi, tag::powi))]
#[cfg_attr(kani, kani::stub(f64::atan2, tag::atan2))]
pub fn c11_fwdtag_dual2_64_u2() {
    let x: Dual2_64 = Dual2_64::new(0.5, 1.5, -0.25);
    assert!(same_dual2(&<Dual2_64 as ComplexField>::exp(x.clone()), &DualNum::exp(&x)));
    assert!(same_dual2(&<Dual2_64 as ComplexField>::exp2(x.clone()), &DualNum::exp2(&x)));
    assert!(same_dual2(&<Dual2_64 as ComplexField>::exp_m1(x.clone()), &DualNum::exp_m1(&x)));
    assert!(same_dual2(&<Dual2_64 as ComplexField>::ln(x.clone()), &DualNum::ln(&x)));
    assert!(same_dual2(&<Dual2_64 as ComplexField>::ln_1p(x.clone()), &DualNum::ln_1p(&x)));
    assert!(same_dual2(&<Dual2_64 as ComplexField>::log2(x.clone()), &DualNum::log2(&x)));
    assert!(same_dual2(&<Dual2_64 as ComplexField>::log10(x.clone()), &DualNum::log10(&x)));
    assert!(same_dual2(&<Dual2_64 as ComplexField>::cbrt(x.clone()), &DualNum::cbrt(&x)));
    cover!(true);
}

#[cfg_attr(kani, kani::proof)]
#[cfg_attr(kani, kani::unwind(8))]
#[cfg_attr(kani, kani::stub(f64::sin_cos, tag::sin_cos))]
#[cfg_attr(kani, kani::stub(f64::asin, tag::asin))]
#[cfg_attr(kani, kani::stub(f64::acos, tag::acos))]
#[cfg_attr(kani, kani::stub(f64::atan, tag::atan))]
#[cfg_attr(kani, kani::stub(f64::sinh, tag::sinh))]
#[cfg_attr(kani, kani::stub(f64::cosh, tag::cosh))]
#[cfg_attr(kani, kani::stub(f64::asinh, tag::asinh))]
#[cfg_attr(kani, kani::stub(f64::acosh, tag::acosh))]
#[cfg_attr(kani, kani::stub(f64::atanh, tag::atanh))]
#[cfg_attr(kani, kani::stub(f64::exp, tag::exp))]
#[cfg_attr(kani, kani::stub(f64::exp2, tag::exp2))]
#[cfg_attr(kani, kani::stub(f64::exp_m1, tag::exp_m1))]
#[cfg_attr(kani, kani::stub(f64::ln, tag::ln))]
#[cfg_attr(kani, kani::stub(f64::ln_1p, tag::ln_1p))]
#[cfg_attr(kani, kani::stub(f64::log2, tag::log2))]
#[cfg_attr(kani, kani::stub(f64::log10, tag::log10))]
#[cfg_attr(kani, kani::stub(f64::cbrt, tag::cbrt))]
#[cfg_attr(kani, kani::stub(f64::powi, tag::powi))]
#[cfg_attr(kani, kani::stub(f64::atan2, tag::atan2))]
pub fn c11_fwdtag_dual2_64_bina() {
    let x: Dual2_64 = Dual2_64::new(0.5, 1.5, -0.25);
    let y: Dual2_64 = x.clone() + <Dual2_64 as num_traits::One>::one() + <Dual2_64 as num_traits::One>::one();   // base / second operand with non-zero derivative parts
    let (s1, c1) = <Dual2_64 as ComplexField>::sin_cos(x.clone());
    let (s2, c2) = DualNum::sin_cos(&x);
    assert!(same_dual2(&s1, &s2) && same_dual2(&c1, &c2));
    assert!(same_dual2(&<Dual2_64 as ComplexField>::powi(x.clone(), 3), &DualNum::powi(&x, 3)));
    assert!(same_dual2(&<Dual2_64 as ComplexField>::log(x.clone(), y.clone()), &(DualNum::ln(&x) / DualNum::ln(&y))));
    assert!(same_dual2(&<Dual2_64 as RealField>::atan2(x.clone(), y.clone()), &DualNum::atan2(&x, y.clone())));
    let ts = <Dual2_64 as ComplexField>::try_sqrt(x.clone());
    assert!(ts.is_some() && same_dual2(&ts.unwrap(), &DualNum::sqrt(&x)));
    cover!(true);
}

#[cfg_attr(kani, kani::proof)]
#[cfg_attr(kani, kani::unwind(8))]
#[cfg_attr(kani, kani::stub(f64::sin_cos, tag::sin_cos))]
#[cfg_attr(kani, kani::stub(f64::asin, tag::asin))]
#[cfg_attr(kani, kani::stub(f64::acos, tag::acos))]
#[cfg_attr(kani, kani::stub(f64::atan, tag::atan))]
#[cfg_attr(kani, kani::stub(f64::sinh, tag::sinh))]
#[cfg_attr(kani, kani::stub(f64::cosh, tag::cosh))]
#[cfg_attr(kani, kani::stub(f64::asinh, tag::asinh))]
#[cfg_attr(kani, kani::stub(f64::acosh, tag::acosh))]
#[cfg_attr(kani, kani::stub(f64::atanh, tag::atanh))]
#[cfg_attr(kani, kani::stub(f64::exp, tag::exp))]
#[cfg_attr(kani, kani::stub(f64::exp2, tag::exp2))]
#[cfg_attr(kani, kani::stub(f64::exp_m1, tag::exp_m1))]
#[cfg_attr(kani, kani::stub(f64::ln, tag::ln))]
#[cfg_attr(kani, kani::stub(f64::ln_1p, tag::ln_1p))]
#[cfg_attr(kani, kani::stub(f64::log2, tag::log2))]
#[cfg_attr(kani, kani::stub(f64::log10, tag::log10))]
#[cfg_attr(kani, kani::stub(f64::cbrt, tag::cbrt))]
#[cfg_attr(kani, kani::stub(f64::powi, tag::powi))]
#[cfg_attr(kani, kani::stub(f64::atan2, tag::atan2))]
pub fn c11_fwdtag_dual2_64_binb_slow() {
    let x: Dual2_64 = Dual2_64::new(0.5, 1.5, -0.25);
    let y: Dual2_64 = x.clone() + <Dual2_64 as num_traits::One>::one() + <Dual2_64 as num_traits::One>::one();   // base / second operand with non-zero derivative parts
    assert!(same_dual2(&<Dual2_64 as ComplexField>::powf(x.clone(), y.clone()), &DualNum::powd(&x, y.clone())));
    assert!(same_dual2(&<Dual2_64 as ComplexField>::powc(x.clone(), y.clone()), &DualNum::powd(&x, y.clone())));
    assert!(same_dual2(&<Dual2_64 as ComplexField>::hypot(x.clone(), y.clone()),
        &DualNum::sqrt(&(DualNum::powi(&x, 2) + DualNum::powi(&y, 2)))));
    assert!(same_dual2(&<Dual2_64 as ComplexField>::scale(x.clone(), y.clone()), &(x.clone() * y.clone())));
    assert!(same_dual2(&<Dual2_64 as ComplexField>::unscale(x.clone(), y.clone()), &(x.clone() / y.clone())));
    assert!(same_dual2(&<Dual2_64 as ComplexField>::mul_add(x.clone(), y.clone(), y.clone()), &DualNum::mul_add(&x, y.clone(), y.clone())));
    cover!(true);
}

#[cfg_attr(kani, kani::proof)]
#[cfg_attr(kani, kani::unwind(8))]
#[cfg_attr(kani, kani::stub(f64::sin_cos, tag::sin_cos))]
#[cfg_attr(kani, kani::stub(f64::asin, tag::asin))]
#[cfg_attr(kani, kani::stub(f64::acos, tag::acos))]
#[cfg_attr(kani, kani::stub(f64::atan, tag::atan))]
#[cfg_attr(kani, kani::stub(f64::sinh, tag::sinh))]
#[cfg_attr(kani, kani::stub(f64::cosh, tag::cosh))]
#[cfg_attr(kani, kani::stub(f64::asinh, tag::asinh))]
#[cfg_attr(kani, kani::stub(f64::acosh, tag::acosh))]
#[cfg_attr(kani, kani::stub(f64::atanh, tag::atanh))]
#[cfg_attr(kani, kani::stub(f64::exp, tag::exp))]
#[cfg_attr(kani, kani::stub(f64::exp2, tag::exp2))]
#[cfg_attr(kani, kani::stub(f64::exp_m1, tag::exp_m1))]
#[cfg_attr(kani, kani::stub(f64::ln, tag::ln))]
#[cfg_attr(kani, kani::stub(f64::ln_1p, tag::ln_1p))]
#[cfg_attr(kani, kani::stub(f64::log2, tag::log2))]
#[cfg_attr(kani, kani::stub(f64::log10, tag::log10))]
#[cfg_attr(kani, kani::stub(f64::cbrt, tag::cbrt))]
#[cfg_attr(kani, kani::stub(f64::powi, tag::powi))]
#[cfg_attr(kani, kani::stub(f64::atan2, tag::atan2))]
pub fn c11_fwdtag_dualvec64_u0() {
    let x: DualVec<f64, f64, Const<2>> = mk_dvec_c();
    assert!(same_dvec(&<DualVec<f64, f64, Const<2>> as ComplexField>::sin(x.clone()), &DualNum::sin(&x)));
    assert!(same_dvec(&<DualVec<f64, f64, Const<2>> as ComplexField>::cos(x.clone()), &DualNum::cos(&x)));
    assert!(same_dvec(&<DualVec<f64, f64, Const<2>> as ComplexField>::tan(x.clone()), &DualNum::tan(&x)));
    assert!(same_dvec(&<DualVec<f64, f64, Const<2>> as ComplexField>::asin(x.clone()), &DualNum::asin(&x)));
    assert!(same_dvec(&<DualVec<f64, f64, Const<2>> as ComplexField>::acos(x.clone()), &DualNum::acos(&x)));
    assert!(same_dvec(&<DualVec<f64, f64, Const<2>> as ComplexField>::atan(x.clone()), &DualNum::atan(&x)));
    cover!(true);
}

#[cfg_attr(kani, kani::proof)]
#[cfg_attr(kani, kani::unwind(8))]
#[cfg_attr(kani, kani::stub(f64::sin_cos, tag::sin_cos))]
#[cfg_attr(kani, kani::stub(f64::asin, tag::asin))]
#[cfg_attr(kani, kani::stub(f64::acos, tag::acos))]
#[cfg_attr(kani, kani::stub(f64::atan, tag::atan))]
#[cfg_attr(kani, kani::stub(f64::sinh, tag::sinh))]
#[cfg_attr(kani, kani::stub(f64::cosh, tag::cosh))]
#[cfg_attr(kani, kani::stub(f64::asinh, tag::asinh))]
#[cfg_attr(kani, kani::stub(f64::acosh, tag::acosh))]
#[cfg_attr(kani, kani::stub(f64::atanh, tag::atanh))]
#[cfg_attr(kani, kani::stub(f64::exp, tag::exp))]
#[cfg_attr(kani, kani::stub(f64::exp2, tag::exp2))]
#[cfg_attr(kani, kani::stub(f64::exp_m1, tag::exp_m1))]
#[cfg_attr(kani, kani::stub(f64::ln, tag::ln))]
#[cfg_attr(kani, kani::stub(f64::ln_1p, tag::ln_1p))]
#[cfg_attr(kani, kani::stub(f64::log2, tag::log2))]
#[cfg_attr(kani, kani::stub(f64::log10, tag::log10))]
#[cfg_attr(kani, kani::stub(f64::cbrt, tag::cbrt))]
#[cfg_attr(kani, kani::stub(f64::powi, tag::powi))]
#[cfg_attr(kani, kani::stub(f64::atan2, tag::atan2))]
pub fn c11_fwdtag_dualvec64_u1() {
    let x: DualVec<f64, f64, Const<2>> = mk_dvec_c();
    assert!(same_dvec(&<DualVec<f64, f64, Const<2>> as ComplexField>::sinh(x.clone()), &DualNum::sinh(&x)));
    assert!(same_dvec(&<DualVec<f64, f64, Const<2>> as ComplexField>::cosh(x.clone()), &DualNum::cosh(&x)));
    assert!(same_dvec(&<DualVec<f64, f64, Const<2>> as ComplexField>::tanh(x.clone()), &DualNum::tanh(&x)));
    assert!(same_dvec(&<DualVec<f64, f64, Const<2>> as ComplexField>::asinh(x.clone()), &DualNum::asinh(&x)));
    assert!(same_dvec(&<DualVec<f64, f64, Const<2>> as ComplexField>::atanh(x.clone()), &DualNum::atanh(&x)));
    assert!(same_dvec(&<DualVec<f64, f64, Const<2>> as ComplexField>::sqrt(x.clone()), &DualNum::sqrt(&x)));
    assert!(same_dvec(&<DualVec<f64, f64, Const<2>> as ComplexField>::recip(x.clone()), &DualNum::recip(&x)));
    cover!(true);
}

#[cfg_attr(kani, kani::proof)]
#[cfg_attr(kani, kani::unwind(8))]
#[cfg_attr(kani, kani::stub(f64::sin_cos, tag::sin_cos))]
#[cfg_attr(kani, kani::stub(f64::asin, tag::asin))]
#[cfg_attr(kani, kani::stub(f64::acos, tag::acos))]
#[cfg_attr(kani, kani::stub(f64::atan, tag::atan))]
#[cfg_attr(kani, kani::stub(f64::sinh, tag::sinh))]
#[cfg_attr(kani, kani::stub(f64::cosh, tag::cosh))]
#[cfg_attr(kani, kani::stub(f64::asinh, tag::asinh))]
#[cfg_attr(kani, kani::stub(f64::acosh, tag::acosh))]
#[cfg_attr(kani, kani::stub(f64::atanh, tag::atanh))]
#[cfg_attr(kani, kani::stub(f64::exp, tag::exp))]
#[cfg_attr(kani, kani::stub(f64::exp2, tag::exp2))]
#[cfg_attr(kani, kani::stub(f64::exp_m1, tag::exp_m1))]
#[cfg_attr(kani, kani::stub(f64::ln, tag::ln))]
#[cfg_attr(kani, kani::stub(f64::ln_1p, tag::ln_1p))]
#[cfg_attr(kani, kani::stub(f64::log2, tag::log2))]
#[cfg_attr(kani, kani::stub(f64::log10, tag::log10))]
#[cfg_attr(kani, kani::stub(f64::cbrt, tag::cbrt))]
#[cfg_attr(kani, kani::stub(f64::powi, tag::powi))]
#[cfg_attr(kani, kani::stub(f64::atan2, tag::atan2))]
pub fn c11_fwdtag_dualvec64_u2() {
    let x: DualVec<f64, f64, Const<2>> = mk_dvec_c();
    assert!(same_dvec(&<DualVec<f64, f64, Const<2>> as ComplexField>::exp(x.clone()), &DualNum::exp(&x)));
    assert!(same_dvec(&<DualVec<f64, f64, Const<2>> as ComplexField>::exp2(x.clone()), &DualNum::exp2(&x)));
    assert!(same_dvec(&<DualVec<f64, f64, Const<2>> as ComplexField>::exp_m1(x.clone()), &DualNum::exp_m1(&x)));
    assert!(same_dvec(&<DualVec<f64, f64, Const<2>> as ComplexField>::ln(x.clone()), &DualNum::ln(&x)));
    assert!(same_dvec(&<DualVec<f64, f64, Const<2>> as ComplexField>::ln_1p(x.clone()), &DualNum::ln_1p(&x)));
    assert!(same_dvec(&<DualVec<f64, f64, Const<2>> as ComplexField>::log2(x.clone()), &DualNum::log2(&x)));
    assert!(same_dvec(&<DualVec<f64, f64, Const<2>> as ComplexField>::log10(x.clone()), &DualNum::log10(&x)));
    assert!(same_dvec(&<DualVec<f64, f64, Const<2>> as ComplexField>::cbrt(x.clone()), &DualNum::cbrt(&x)));
    cover!(true);
}

#[cfg_attr(kani, kani::proof)]
#[cfg_attr(kani, kani::unwind(8))]
#[cfg_attr(kani, kani::stub(f64::sin_cos, tag::sin_cos))]
#[cfg_attr(kani, kani::stub(f64::asin, tag::asin))]
#[cfg_attr(kani, kani::stub(f64::acos, tag::acos))]
#[cfg_attr(kani, kani::stub(f64::atan, tag::atan))]
#[cfg_attr(kani, kani::stub(f64::sinh, tag::sinh))]
#[cfg_attr(kani, kani::stub(f64::cosh, tag::cosh))]
#[cfg_attr(kani, kani::stub(f64::asinh, tag::asinh))]
#[cfg_attr(kani, kani::stub(f64::acosh, tag::acosh))]
#[cfg_attr(kani, kani::stub(f64::atanh, tag::atanh))]
#[cfg_attr(kani, kani::stub(f64::exp, tag::exp))]
#[cfg_attr(kani, kani::stub(f64::exp2, tag::exp2))]
#[cfg_attr(kani, kani::stub(f64::exp_m1, tag::exp_m1))]
#[cfg_attr(kani, kani::stub(f64::ln, tag::ln))]
#[cfg_attr(kani, kani::stub(f64::ln_1p, tag::ln_1p))]
#[cfg_attr(kani, kani::stub(f64::log2, tag::log2))]
#[cfg_attr(kani, kani::stub(f64::log10, tag::log10))]
#[cfg_attr(kani, kani::stub(f64::cbrt, tag::cbrt))]
#[cfg_attr(kani, kani::stub(f64::powi, tag::powi))]
#[cfg_attr(kani, kani::stub(f64::atan2, tag::atan2))]
pub fn c11_fwdtag_dualvec64_bina() {
    let x: DualVec<f64, f64, Const<2>> = mk_dvec_c();
    let y: DualVec<f64, f64, Const<2>> = x.clone() + <DualVec<f64, f64, Const<2>> as num_traits::One>::one() + <DualVec<f64, f64, Const<2>> as num_traits::One>::one();   // base / second operand with non-zero derivative parts
    let (s1, c1) = <DualVec<f64, f64, Const<2>> as ComplexField>::sin_cos(x.clone());
    let (s2, c2) = DualNum::sin_cos(&x);
    assert!(same_dvec(&s1, &s2) && same_dvec(&c1, &c2));
    assert!(same_dvec(&<DualVec<f64, f64, Const<2>> as ComplexField>::powi(x.clone(), 3), &DualNum::powi(&x, 3)));
    assert!(same_dvec(&<DualVec<f64, f64, Const<2>> as ComplexField>::log(x.clone(), y.clone()), &(DualNum::ln(&x) / DualNum::ln(&y))));
    assert!(same_dvec(&<DualVec<f64, f64, Const<2>> as RealField>::atan2(x.clone(), y.clone()), &DualNum::atan2(&x, y.clone())));
    let ts = <DualVec<f64, f64, Const<2>> as ComplexField>::try_sqrt(x.clone());
    assert!(ts.is_some() && same_dvec(&ts.unwrap(), &DualNum::sqrt(&x)));
    cover!(true);
}

#[cfg_attr(kani, kani::proof)]
#[cfg_attr(kani, kani::unwind(8))]
#[cfg_attr(kani, kani::stub(f64::sin_cos, tag::sin_cos))]
#[cfg_attr(kani, kani::stub(f64::asin, tag::asin))]
#[cfg_attr(kani, kani::stub(f64::acos, tag::acos))]
#[cfg_attr(kani, kani::stub(f64::atan, tag::atan))]
#[cfg_attr(kani, kani::stub(f64::sinh, tag::sinh))]
#[cfg_attr(kani, kani::stub(f64::cosh, tag::cosh))]
#[cfg_attr(kani, kani::stub(f64::asinh, tag::asinh))]
#[cfg_attr(kani, kani::stub(f64::acosh, tag::acosh))]
#[cfg_attr(kani, kani::stub(f64::atanh, tag::atanh))]
#[cfg_attr(kani, kani::stub(f64::exp, tag::exp))]
#[cfg_attr(kani, kani::stub(f64::exp2, tag::exp2))]
#[cfg_attr(kani, kani::stub(f64::exp_m1, tag::exp_m1))]
#[cfg_attr(kani, kani::stub(f64::ln, tag::ln))]
#[cfg_attr(kani, kani::stub(f64::ln_1p, tag::ln_1p))]
#[cfg_attr(kani, kani::stub(f64::log2, tag::log2))]
#[cfg_attr(kani, kani::stub(f64::log10, tag::log10))]
#[cfg_attr(kani, kani::stub(f64::cbrt, tag::cbrt))]
#[cfg_attr(kani, kani::stub(f64::powi, tag::powi))]
#[cfg_attr(kani, kani::stub(f64::atan2, tag::atan2))]
pub fn c11_fwdtag_dualvec64_binb_slow() {
    let x: DualVec<f64, f64, Const<2>> = mk_dvec_c();
    let y: DualVec<f64, f64, Const<2>> = x.clone() + <DualVec<f64, f64, Const<2>> as num_traits::One>::one() + <DualVec<f64, f64, Const<2>> as num_traits::One>::one();   // base / second operand with non-zero derivative parts
    assert!(same_dvec(&<DualVec<f64, f64, Const<2>> as ComplexField>::powf(x.clone(), y.clone()), &DualNum::powd(&x, y.clone())));
    assert!(same_dvec(&<DualVec<f64, f64, Const<2>> as ComplexField>::powc(x.clone(), y.clone()), &DualNum::powd(&x, y.clone())));
    assert!(same_dvec(&<DualVec<f64, f64, Const<2>> as ComplexField>::hypot(x.clone(), y.clone()),
        &DualNum::sqrt(&(DualNum::powi(&x, 2) + DualNum::powi(&y, 2)))));
    assert!(same_dvec(&<DualVec<f64, f64, Const<2>> as ComplexField>::scale(x.clone(), y.clone()), &(x.clone() * y.clone())));
    assert!(same_dvec(&<DualVec<f64, f64, Const<2>> as ComplexField>::unscale(x.clone(), y.clone()), &(x.clone() / y.clone())));
    assert!(same_dvec(&<DualVec<f64, f64, Const<2>> as ComplexField>::mul_add(x.clone(), y.clone(), y.clone()), &DualNum::mul_add(&x, y.clone(), y.clone())));
    cover!(true);
}

#[cfg_attr(kani, kani::proof)]
#[cfg_attr(kani, kani::unwind(8))]
#[cfg_attr(kani, kani::stub(f64::sin_cos, tag::sin_cos))]
#[cfg_attr(kani, kani::stub(f64::asin, tag::asin))]
#[cfg_attr(kani, kani::stub(f64::acos, tag::acos))]
#[cfg_attr(kani, kani::stub(f64::atan, tag::atan))]
#[cfg_attr(kani, kani::stub(f64::sinh, tag::sinh))]
#[cfg_attr(kani, kani::stub(f64::cosh, tag::cosh))]
#[cfg_attr(kani, kani::stub(f64::asinh, tag::asinh))]
#[cfg_attr(kani, kani::stub(f64::acosh, tag::acosh))]
#[cfg_attr(kani, kani::stub(f64::atanh, tag::atanh))]
#[cfg_attr(kani, kani::stub(f64::exp, tag::exp))]
#[cfg_attr(kani, kani::stub(f64::exp2, tag::exp2))]
#[cfg_attr(kani, kani::stub(f64::exp_m1, tag::exp_m1))]
#[cfg_attr(kani, kani::stub(f64::ln, tag::ln))]
#[cfg_attr(kani, kani::stub(f64::ln_1p, tag::ln_1p))]
#[cfg_attr(kani, kani::stub(f64::log2, tag::log2))]
#[cfg_attr(kani, kani::stub(f64::log10, tag::log10))]
#[cfg_attr(kani, kani::stub(f64::cbrt, tag::cbrt))]
#[cfg_attr(kani, kani::stub(f64::powi, tag::powi))]
#[cfg_attr(kani, kani::stub(f64::atan2, tag::atan2))]
pub fn c11_fwdtag_dual2vec64_u0_slow() {
    let x: Dual2Vec<f64, f64, Const<1>> = mk_d2v();
    assert!(same_d2v(&<Dual2Vec<f64, f64, Const<1>> as ComplexField>::sin(x.clone()), &DualNum::sin(&x)));
    assert!(same_d2v(&<Dual2Vec<f64, f64, Const<1>> as ComplexField>::cos(x.clone()), &DualNum::cos(&x)));
    assert!(same_d2v(&<Dual2Vec<f64, f64, Const<1>> as ComplexField>::tan(x.clone()), &DualNum::tan(&x)));
    assert!(same_d2v(&<Dual2Vec<f64, f64, Const<1>> as ComplexField>::asin(x.clone()), &DualNum::asin(&x)));
    assert!(same_d2v(&<Dual2Vec<f64, f64, Const<1>> as ComplexField>::acos(x.clone()), &DualNum::acos(&x)));
    assert!(same_d2v(&<Dual2Vec<f64, f64, Const<1>> as ComplexField>::atan(x.clone()), &DualNum::atan(&x)));
    cover!(true);
}

#[cfg_attr(kani, kani::proof)]
#[cfg_attr(kani, kani::unwind(8))]
#[cfg_attr(kani, kani::stub(f64::sin_cos, tag::sin_cos))]
#[cfg_attr(kani, kani::stub(f64::asin, tag::asin))]
#[cfg_attr(kani, kani::stub(f64::acos, tag::acos))]
#[cfg_attr(kani, kani::stub(f64::atan, tag::atan))]
#[cfg_attr(kani, kani::stub(f64::sinh, tag::sinh))]
#[cfg_attr(kani, kani::stub(f64::cosh, tag::cosh))]
#[cfg_attr(kani, kani::stub(f64::asinh, tag::asinh))]
#[cfg_attr(kani, kani::stub(f64::acosh, tag::acosh))]
#[cfg_attr(kani, kani::stub(f64::atanh, tag::atanh))]
#[cfg_attr(kani, kani::stub(f64::exp, tag::exp))]
#[cfg_attr(kani, kani::stub(f64::exp2, tag::exp2))]
#[cfg_attr(kani, kani::stub(f64::exp_m1, tag::exp_m1))]
#[cfg_attr(kani, kani::stub(f64::ln, tag::ln))]
#[cfg_attr(kani, kani::stub(f64::ln_1p, tag::ln_1p))]
#[cfg_attr(kani, kani::stub(f64::log2, tag::log2))]
#[cfg_attr(kani, kani::stub(f64::log10, tag::log10))]
#[cfg_attr(kani, kani::stub(f64::cbrt, tag::cbrt))]
#[cfg_attr(kani, kani::stub(f64::powi, tag::powi))]
#[cfg_attr(kani, kani::stub(f64::atan2, tag::atan2))]
pub fn c11_fwdtag_dual2vec64_u1_slow() {
    let x: Dual2Vec<f64, f64, Const<1>> = mk_d2v();
    assert!(same_d2v(&<Dual2Vec<f64, f64, Const<1>> as ComplexField>::sinh(x.clone()), &DualNum::sinh(&x)));
    assert!(same_d2v(&<Dual2Vec<f64, f64, Const<1>> as ComplexField>::cosh(x.clone()), &DualNum::cosh(&x)));
    assert!(same_d2v(&<Dual2Vec<f64, f64, Const<1>> as ComplexField>::tanh(x.clone()), &DualNum::tanh(&x)));
    assert!(same_d2v(&<Dual2Vec<f64, f64, Const<1>> as ComplexField>::asinh(x.clone()), &DualNum::asinh(&x)));
    assert!(same_d2v(&<Dual2Vec<f64, f64, Const<1>> as ComplexField>::atanh(x.clone()), &DualNum::atanh(&x)));
    assert!(same_d2v(&<Dual2Vec<f64, f64, Const<1>> as ComplexField>::sqrt(x.clone()), &DualNum::sqrt(&x)));
    assert!(same_d2v(&<Dual2Vec<f64, f64, Const<1>> as ComplexField>::recip(x.clone()), &DualNum::recip(&x)));
    cover!(true);
}

#[cfg_attr(kani, kani::proof)]
#[cfg_attr(kani, kani::unwind(8))]
#[cfg_attr(kani, kani::stub(f64::sin_cos, tag::sin_cos))]
#[cfg_attr(kani, kani::stub(f64::asin, tag::asin))]
#[cfg_attr(kani, kani::stub(f64::acos, tag::acos))]
#[cfg_attr(kani, kani::stub(f64::atan, tag::atan))]
#[cfg_attr(kani, kani::stub(f64::sinh, tag::sinh))]
#[cfg_attr(kani, kani::stub(f64::cosh, tag::cosh))]
#[cfg_attr(kani, kani::stub(f64::asinh, tag::asinh))]
#[cfg_attr(kani, kani::stub(f64::acosh, tag::acosh))]
#[cfg_attr(kani, kani::stub(f64::atanh, tag::atanh))]
#[cfg_attr(kani, kani::stub(f64::exp, tag::exp))]
#[cfg_attr(kani, kani::stub(f64::exp2, tag::exp2))]
#[cfg_attr(kani, kani::stub(f64::exp_m1, tag::exp_m1))]
#[cfg_attr(kani, kani::stub(f64::ln, tag::ln))]
#[cfg_attr(kani, kani::stub(f64::ln_1p, tag::ln_1p))]
#[cfg_attr(kani, kani::stub(f64::log2, tag::log2))]
#[cfg_attr(kani, kani::stub(f64::log10, tag::log10))]
#[cfg_attr(kani, kani::stub(f64::cbrt, tag::cbrt))]
#[cfg_attr(kani, kani::stub(f64::powi, tag::powi))]
#[cfg_attr(kani, kani::stub(f64::atan2, tag::atan2))]
pub fn c11_fwdtag_dual2vec64_u2_slow() {
    let x: Dual2Vec<f64, f64, Const<1>> = mk_d2v();
    assert!(same_d2v(&<Dual2Vec<f64, f64, Const<1>> as ComplexField>::exp(x.clone()), &DualNum::exp(&x)));
    assert!(same_d2v(&<Dual2Vec<f64, f64, Const<1>> as ComplexField>::exp2(x.clone()), &DualNum::exp2(&x)));
    assert!(same_d2v(&<Dual2Vec<f64, f64, Const<1>> as ComplexField>::exp_m1(x.clone()), &DualNum::exp_m1(&x)));
    assert!(same_d2v(&<Dual2Vec<f64, f64, Const<1>> as ComplexField>::ln(x.clone()), &DualNum::ln(&x)));
    assert!(same_d2v(&<Dual2Vec<f64, f64, Const<1>> as ComplexField>::ln_1p(x.clone()), &DualNum::ln_1p(&x)));
    assert!(same_d2v(&<Dual2Vec<f64, f64, Const<1>> as ComplexField>::log2(x.clone()), &DualNum::log2(&x)));
    assert!(same_d2v(&<Dual2Vec<f64, f64, Const<1>> as ComplexField>::log10(x.clone()), &DualNum::log10(&x)));
    assert!(same_d2v(&<Dual2Vec<f64, f64, Const<1>> as ComplexField>::cbrt(x.clone()), &DualNum::cbrt(&x)));
    cover!(true);
}

/// quick-tier companion of the Dual2Vec forwarding harnesses: logarithm to a base that is itself a
/// dual number with non-zero derivative parts (the base's parts must enter the result)
#[cfg_attr(kani, kani::proof)]
#[cfg_attr(kani, kani::unwind(8))]
#[cfg_attr(kani, kani::stub(f64::ln, tag::ln))]
pub fn c11_fwdtag_dual2vec64_log_dual_base() {
    let x: Dual2Vec<f64, f64, Const<1>> = mk_d2v();
    let y: Dual2Vec<f64, f64, Const<1>> = Dual2Vec::new(
        2.5,
        Derivative::some(nalgebra::SMatrix::<f64, 1, 1>::new(-0.75)),
        Derivative::some(nalgebra::SMatrix::<f64, 1, 1>::new(0.5)),
    );
    assert!(same_d2v(&<Dual2Vec<f64, f64, Const<1>> as ComplexField>::log(x.clone(), y.clone()), &(DualNum::ln(&x) / DualNum::ln(&y))));
    cover!(true);
}

#[cfg_attr(kani, kani::proof)]
#[cfg_attr(kani, kani::unwind(8))]
#[cfg_attr(kani, kani::stub(f64::sin_cos, tag::sin_cos))]
#[cfg_attr(kani, kani::stub(f64::asin, tag::asin))]
#[cfg_attr(kani, kani::stub(f64::acos, tag::acos))]
#[cfg_attr(kani, kani::stub(f64::atan, tag::atan))]
#[cfg_attr(kani, kani::stub(f64::sinh, tag::sinh))]
#[cfg_attr(kani, kani::stub(f64::cosh, tag::cosh))]
#[cfg_attr(kani, kani::stub(f64::asinh, tag::asinh))]
#[cfg_attr(kani, kani::stub(f64::acosh, tag::acosh))]
#[cfg_attr(kani, kani::stub(f64::atanh, tag::atanh))]
#[cfg_attr(kani, kani::stub(f64::exp, tag::exp))]
#[cfg_attr(kani, kani::stub(f64::exp2, tag::exp2))]
#[cfg_attr(kani, kani::stub(f64::exp_m1, tag::exp_m1))]
#[cfg_attr(kani, kani::stub(f64::ln, tag::ln))]
#[cfg_attr(kani, kani::stub(f64::ln_1p, tag::ln_1p))]
#[cfg_attr(kani, kani::stub(f64::log2, tag::log2))]
#[cfg_attr(kani, kani::stub(f64::log10, tag::log10))]
#[cfg_attr(kani, kani::stub(f64::cbrt, tag::cbrt))]
#[cfg_attr(kani, kani::stub(f64::powi, tag::powi))]
#[cfg_attr(kani, kani::stub(f64::atan2, tag::atan2))]
pub fn c11_fwdtag_dual2vec64_bina_slow() {
    let x: Dual2Vec<f64, f64, Const<1>> = mk_d2v();
    let y: Dual2Vec<f64, f64, Const<1>> = x.clone() + <Dual2Vec<f64, f64, Const<1>> as num_traits::One>::one() + <Dual2Vec<f64, f64, Const<1>> as num_traits::One>::one();   // base / second operand with non-zero derivative parts
    let (s1, c1) = <Dual2Vec<f64, f64, Const<1>> as ComplexField>::sin_cos(x.clone());
    let (s2, c2) = DualNum::sin_cos(&x);
    assert!(same_d2v(&s1, &s2) && same_d2v(&c1, &c2));
    assert!(same_d2v(&<Dual2Vec<f64, f64, Const<1>> as ComplexField>::powi(x.clone(), 3), &DualNum::powi(&x, 3)));
    assert!(same_d2v(&<Dual2Vec<f64, f64, Const<1>> as ComplexField>::log(x.clone(), y.clone()), &(DualNum::ln(&x) / DualNum::ln(&y))));
    assert!(same_d2v(&<Dual2Vec<f64, f64, Const<1>> as RealField>::atan2(x.clone(), y.clone()), &DualNum::atan2(&x, y.clone())));
    let ts = <Dual2Vec<f64, f64, Const<1>> as ComplexField>::try_sqrt(x.clone());
    assert!(ts.is_some() && same_d2v(&ts.unwrap(), &DualNum::sqrt(&x)));
    cover!(true);
}

#[cfg_attr(kani, kani::proof)]
#[cfg_attr(kani, kani::unwind(8))]
#[cfg_attr(kani, kani::stub(f64::sin_cos, tag::sin_cos))]
#[cfg_attr(kani, kani::stub(f64::asin, tag::asin))]
#[cfg_attr(kani, kani::stub(f64::acos, tag::acos))]
#[cfg_attr(kani, kani::stub(f64::atan, tag::atan))]
#[cfg_attr(kani, kani::stub(f64::sinh, tag::sinh))]
#[cfg_attr(kani, kani::stub(f64::cosh, tag::cosh))]
#[cfg_attr(kani, kani::stub(f64::asinh, tag::asinh))]
#[cfg_attr(kani, kani::stub(f64::acosh, tag::acosh))]
#[cfg_attr(kani, kani::stub(f64::atanh, tag::atanh))]
#[cfg_attr(kani, kani::stub(f64::exp, tag::exp))]
#[cfg_attr(kani, kani::stub(f64::exp2, tag::exp2))]
#[cfg_attr(kani, kani::stub(f64::exp_m1, tag::exp_m1))]
#[cfg_attr(kani, kani::stub(f64::ln, tag::ln))]
#[cfg_attr(kani, kani::stub(f64::ln_1p, tag::ln_1p))]
#[cfg_attr(kani, kani::stub(f64::log2, tag::log2))]
#[cfg_attr(kani, kani::stub(f64::log10, tag::log10))]
#[cfg_attr(kani, kani::stub(f64::cbrt, tag::cbrt))]
#[cfg_attr(kani, kani::stub(f64::powi, tag::powi))]
#[cfg_attr(kani, kani::stub(f64::atan2, tag::atan2))]
pub fn c11_fwdtag_dual2vec64_binb_slow() {
    let x: Dual2Vec<f64, f64, Const<1>> = mk_d2v();
    let y: Dual2Vec<f64, f64, Const<1>> = x.clone() + <Dual2Vec<f64, f64, Const<1>> as num_traits::One>::one() + <Dual2Vec<f64, f64, Const<1>> as num_traits::One>::one();   // base / second operand with non-zero derivative parts
    assert!(same_d2v(&<Dual2Vec<f64, f64, Const<1>> as ComplexField>::powf(x.clone(), y.clone()), &DualNum::powd(&x, y.clone())));
    assert!(same_d2v(&<Dual2Vec<f64, f64, Const<1>> as ComplexField>::powc(x.clone(), y.clone()), &DualNum::powd(&x, y.clone())));
    assert!(same_d2v(&<Dual2Vec<f64, f64, Const<1>> as ComplexField>::hypot(x.clone(), y.clone()),
        &DualNum::sqrt(&(DualNum::powi(&x, 2) + DualNum::powi(&y, 2)))));
    assert!(same_d2v(&<Dual2Vec<f64, f64, Const<1>> as ComplexField>::scale(x.clone(), y.clone()), &(x.clone() * y.clone())));
    assert!(same_d2v(&<Dual2Vec<f64, f64, Const<1>> as ComplexField>::unscale(x.clone(), y.clone()), &(x.clone() / y.clone())));
    assert!(same_d2v(&<Dual2Vec<f64, f64, Const<1>> as ComplexField>::mul_add(x.clone(), y.clone(), y.clone()), &DualNum::mul_add(&x, y.clone(), y.clone())));
    cover!(true);
}


/// copysign takes the sign bit of the sign operand's real part (-0.0 and NaN included) on all four
/// types and flips every part together with the real part
#[cfg_attr(kani, kani::proof)]
pub fn c11_copysign_all_types() {
    use nalgebra::{SMatrix, SVector, U1};
    let sre = any_f64();
    let neg = sre.is_sign_negative();
    // Dual2
    let a = Dual2_64::new(any_f64(), any_f64(), any_f64());
    assume(!a.re.is_nan());
    let c = RealField::copysign(a, Dual2_64::new(sre, any_f64(), any_f64()));
    let flip = a.re.is_sign_negative() != neg;
    if flip {
        assert!(eq64(c.re, -a.re) && eq64(c.v1, -a.v1) && eq64(c.v2, -a.v2));
    } else {
        assert!(eq64(c.re, a.re) && eq64(c.v1, a.v1) && eq64(c.v2, a.v2));
    }
    // DualVec
    let v = DualVec::<f64, f64, Const<2>>::new(a.re, Derivative::some(SVector::<f64, 2>::new(a.v1, a.v2)));
    let cv = RealField::copysign(v, DualVec::<f64, f64, Const<2>>::new(sre, Derivative::none()));
    let e = cv.eps.unwrap_generic(Const::<2>, U1);
    assert!(cv.re.is_sign_negative() == neg);
    if flip {
        assert!(eq64(e[0], -a.v1) && eq64(e[1], -a.v2));
    } else {
        assert!(eq64(e[0], a.v1) && eq64(e[1], a.v2));
    }
    // Dual2Vec
    let w = Dual2Vec::<f64, f64, Const<1>>::new(
        a.re,
        Derivative::some(SMatrix::<f64, 1, 1>::new(a.v1)),
        Derivative::some(SMatrix::<f64, 1, 1>::new(a.v2)),
    );
    let cw = RealField::copysign(w, Dual2Vec::<f64, f64, Const<1>>::new(sre, Derivative::none(), Derivative::none()));
    assert!(cw.re.is_sign_negative() == neg);
    let (w1, w2) = (cw.v1.unwrap_generic(U1, Const::<1>), cw.v2.unwrap_generic(Const::<1>, Const::<1>));
    if flip {
        assert!(eq64(w1[0], -a.v1) && eq64(w2[0], -a.v2));
    } else {
        assert!(eq64(w1[0], a.v1) && eq64(w2[0], a.v2));
    }
    cover!(sre == 0.0 && neg);
    cover!(sre.is_nan());
}

pub const LIST: &[(&str, fn())] = &[
    ("c11_copysign_all_types", c11_copysign_all_types),
    ("c11_fwdtag_dual64_u0", c11_fwdtag_dual64_u0),
    ("c11_fwdtag_dual64_u1", c11_fwdtag_dual64_u1),
    ("c11_fwdtag_dual64_u2", c11_fwdtag_dual64_u2),
    ("c11_fwdtag_dual64_bina", c11_fwdtag_dual64_bina),
    ("c11_fwdtag_dual64_binb_slow", c11_fwdtag_dual64_binb_slow),
    ("c11_fwdtag_dual2_64_u0", c11_fwdtag_dual2_64_u0),
    ("c11_fwdtag_dual2_64_u1", c11_fwdtag_dual2_64_u1),
    ("c11_fwdtag_dual2_64_u2", c11_fwdtag_dual2_64_u2),
    ("c11_fwdtag_dual2_64_bina", c11_fwdtag_dual2_64_bina),
    ("c11_fwdtag_dual2_64_binb_slow", c11_fwdtag_dual2_64_binb_slow),
    ("c11_fwdtag_dualvec64_u0", c11_fwdtag_dualvec64_u0),
    ("c11_fwdtag_dualvec64_u1", c11_fwdtag_dualvec64_u1),
    ("c11_fwdtag_dualvec64_u2", c11_fwdtag_dualvec64_u2),
    ("c11_fwdtag_dualvec64_bina", c11_fwdtag_dualvec64_bina),
    ("c11_fwdtag_dualvec64_binb_slow", c11_fwdtag_dualvec64_binb_slow),
    ("c11_fwdtag_dual2vec64_u0_slow", c11_fwdtag_dual2vec64_u0_slow),
    ("c11_fwdtag_dual2vec64_u1_slow", c11_fwdtag_dual2vec64_u1_slow),
    ("c11_fwdtag_dual2vec64_u2_slow", c11_fwdtag_dual2vec64_u2_slow),
    ("c11_fwdtag_dual2vec64_log_dual_base", c11_fwdtag_dual2vec64_log_dual_base),
    ("c11_fwdtag_dual2vec64_bina_slow", c11_fwdtag_dual2vec64_bina_slow),
    ("c11_fwdtag_dual2vec64_binb_slow", c11_fwdtag_dual2vec64_binb_slow),

    ("c11_fwd_dual_trig", c11_fwd_dual_trig),
    ("c11_fwd_dual_hyp", c11_fwd_dual_hyp),
    ("c11_fwd_dual_exp", c11_fwd_dual_exp),
    ("c11_fwd_dual_ln", c11_fwd_dual_ln),
    ("c11_fwd_dual_base2_10", c11_fwd_dual_base2_10),
    ("c11_fwd_dual2_a", c11_fwd_dual2_a),
    ("c11_fwd_dual2_b", c11_fwd_dual2_b),
    ("c11_fwd_dualvec_a", c11_fwd_dualvec_a),
    ("c11_fwd_dualvec_b", c11_fwd_dualvec_b),
    ("c11_fwd_dual_powi", c11_fwd_dual_powi),
    ("c11_fwd_dual_log_powf", c11_fwd_dual_log_powf),
    ("c11_fwd_dual_simple", c11_fwd_dual_simple),
    ("c11_simd_dualvec_presence", c11_simd_dualvec_presence),
    ("c11_simd_dual2vec_presence", c11_simd_dual2vec_presence),
    ("c11_consts_dual64", c11_consts_dual64),
    ("c11_consts_dual32", c11_consts_dual32),
    ("c11_consts_dual2_64", c11_consts_dual2_64),
    ("c11_consts_dualvec64", c11_consts_dualvec64),
    ("c11_consts_dual2vec64", c11_consts_dual2vec64),
    ("c11_selection_simd_dual64", c11_selection_simd_dual64),
];
