//! C13: subset/superset conversions (simba contract) on the four convertible types.
use crate::util::*;
use nalgebra::{Const, SVector, U1};
use num_dual::*;
use simba::scalar::{SubsetOf, SupersetOf};

fn any_dvec2_32(present: bool) -> DualVec<f32, f32, Const<2>> {
    let eps = if present {
        Derivative::some(SVector::<f32, 2>::new(any_f32(), any_f32()))
    } else {
        Derivative::none()
    };
    DualVec::new(any_f32(), eps)
}

fn any_dvec2_64(present: bool) -> DualVec<f64, f64, Const<2>> {
    let eps = if present {
        Derivative::some(SVector::<f64, 2>::new(any_f64(), any_f64()))
    } else {
        Derivative::none()
    };
    DualVec::new(any_f64(), eps)
}

/// widening preserves every part exactly; narrowing it back is the identity (bitwise)
#[cfg_attr(kani, kani::proof)]
pub fn c13_dual_widen_roundtrip() {
    let x = Dual32::new(any_f32(), any_f32());
    let w: Dual64 = x.to_superset();
    assert!(same64(w.re, x.re as f64) && same64(w.eps, x.eps as f64));
    let back: Dual32 = <Dual32 as SubsetOf<Dual64>>::from_superset_unchecked(&w);
    assert!(same32(back.re, x.re) || x.re.is_nan());
    assert!(same32(back.eps, x.eps) || x.eps.is_nan());
    cover!(true);
}

/// checked narrowing succeeds exactly when the membership predicate holds; value = per-part cast
#[cfg_attr(kani, kani::proof)]
pub fn c13_dual_narrow_membership() {
    let w = Dual64::new(any_f64(), any_f64());
    let inside = <Dual32 as SubsetOf<Dual64>>::is_in_subset(&w);
    let r: Option<Dual32> = <Dual32 as SubsetOf<Dual64>>::from_superset(&w);
    assert!(r.is_some() == inside);
    if let Some(d) = r {
        assert!(same32(d.re, w.re as f32) || w.re.is_nan());
        assert!(same32(d.eps, w.eps as f32) || w.eps.is_nan());
    }
    cover!(inside);
}

#[cfg_attr(kani, kani::proof)]
pub fn c13_dual2_narrow_membership() {
    let w = Dual2_64::new(any_f64(), any_f64(), any_f64());
    let inside = <Dual2_32 as SubsetOf<Dual2_64>>::is_in_subset(&w);
    let r: Option<Dual2_32> = <Dual2_32 as SubsetOf<Dual2_64>>::from_superset(&w);
    assert!(r.is_some() == inside);
    if let Some(d) = r {
        assert!(same32(d.v2, w.v2 as f32) || w.v2.is_nan());
        assert!(same32(d.v1, w.v1 as f32) || w.v1.is_nan());
    }
    let x = Dual2_32::new(any_f32(), any_f32(), any_f32());
    let up: Dual2_64 = x.to_superset();
    assert!(same64(up.re, x.re as f64) && same64(up.v1, x.v1 as f64) && same64(up.v2, x.v2 as f64));
    cover!(inside);
}

/// vector type, both presence patterns: membership <=> success, absent stays absent
#[cfg_attr(kani, kani::proof)]
pub fn c13_dualvec_narrow_presence() {
    let present: bool = any_bool();
    let w = any_dvec2_64(present);
    let inside = <DualVec<f32, f32, Const<2>> as SubsetOf<DualVec<f64, f64, Const<2>>>>::is_in_subset(&w);
    let r: Option<DualVec<f32, f32, Const<2>>> = SubsetOf::from_superset(&w);
    assert!(r.is_some() == inside);
    if let Some(d) = r {
        assert!(same32(d.re, w.re as f32) || w.re.is_nan());
        assert!((d.eps == Derivative::none()) == !present);
        if present {
            let e = d.eps.unwrap_generic(Const::<2>, U1);
            let we = w.eps.clone().unwrap_generic(Const::<2>, U1);
            assert!(same32(e[0], we[0] as f32) || we[0].is_nan());
            assert!(same32(e[1], we[1] as f32) || we[1].is_nan());
        }
    }
    cover!(inside && !present);
    cover!(inside && present);
}

#[cfg_attr(kani, kani::proof)]
pub fn c13_dualvec_widen_presence() {
    let present: bool = any_bool();
    let x = any_dvec2_32(present);
    let w: DualVec<f64, f64, Const<2>> = x.to_superset();
    assert!(same64(w.re, x.re as f64));
    assert!((w.eps == Derivative::none()) == !present);
    if present {
        let e = w.eps.clone().unwrap_generic(Const::<2>, U1);
        let xe = x.eps.clone().unwrap_generic(Const::<2>, U1);
        assert!(same64(e[0], xe[0] as f64) && same64(e[1], xe[1] as f64));
    }
    // narrowing back is the identity
    let b: DualVec<f32, f32, Const<2>> = SubsetOf::from_superset_unchecked(&w);
    assert!(same32(b.re, x.re) || x.re.is_nan());
    assert!((b.eps == Derivative::none()) == !present);
    cover!(present);
    cover!(!present);
}

/// lifting a float yields a constant, extracting yields the real part
#[cfg_attr(kani, kani::proof)]
pub fn c13_float_lift_extract() {
    let f = any_f64();
    let d: Dual64 = <Dual64 as SupersetOf<f64>>::from_subset(&f);
    assert!(same64(d.re, f) && same64(d.eps, 0.0));
    let v: DualVec<f64, f64, Const<2>> = <DualVec<f64, f64, Const<2>> as SupersetOf<f64>>::from_subset(&f);
    assert!(same64(v.re, f) && v.eps == Derivative::none());
    let y = Dual64::new(any_f64(), any_f64());
    let r: f64 = <Dual64 as SupersetOf<f64>>::to_subset_unchecked(&y);
    assert!(same64(r, y.re));
    let g = any_f32();
    let d2: Dual2_64 = <Dual2_64 as SupersetOf<f32>>::from_subset(&g);
    assert!(same64(d2.re, g as f64) && same64(d2.v1, 0.0) && same64(d2.v2, 0.0));
    cover!(true);
}

/// second-order vector type: widening / unchecked narrowing keep every entry of the (possibly
/// non-symmetric) matrix part in its place, for every presence pattern
#[cfg_attr(kani, kani::proof)]
pub fn c13_dual2vec_widen_entries() {
    use nalgebra::SMatrix;
    let (p1, p2) = (any_bool(), any_bool());
    let (a, b, c, d) = (any_f32(), any_f32(), any_f32(), any_f32());
    let v1 = if p1 { Derivative::some(SMatrix::<f32, 1, 2>::new(any_f32(), any_f32())) } else { Derivative::none() };
    let v2 = if p2 { Derivative::some(SMatrix::<f32, 2, 2>::new(a, b, c, d)) } else { Derivative::none() };
    let x = Dual2Vec::<f32, f32, Const<2>>::new(any_f32(), v1, v2);
    let w: Dual2Vec<f64, f64, Const<2>> = x.to_superset();
    assert!(same64(w.re, x.re as f64));
    assert!((w.v1 == Derivative::none()) == !p1 && (w.v2 == Derivative::none()) == !p2);
    if p2 {
        let m = w.v2.clone().unwrap_generic(Const::<2>, Const::<2>);
        assert!(same64(m[(0, 0)], a as f64) && same64(m[(0, 1)], b as f64));
        assert!(same64(m[(1, 0)], c as f64) && same64(m[(1, 1)], d as f64));
    }
    if p1 {
        let r = w.v1.clone().unwrap_generic(U1, Const::<2>);
        let xr = x.v1.clone().unwrap_generic(U1, Const::<2>);
        assert!(same64(r[0], xr[0] as f64) && same64(r[1], xr[1] as f64));
    }
    let back: Dual2Vec<f32, f32, Const<2>> = SubsetOf::from_superset_unchecked(&w);
    if p2 {
        let m = back.v2.clone().unwrap_generic(Const::<2>, Const::<2>);
        assert!(eq32(m[(0, 1)], b) && eq32(m[(1, 0)], c));
    }
    let chk: Option<Dual2Vec<f32, f32, Const<2>>> = SubsetOf::from_superset(&w);
    assert!(chk.is_some() == <Dual2Vec<f32, f32, Const<2>> as SubsetOf<Dual2Vec<f64, f64, Const<2>>>>::is_in_subset(&w));
    if let Some(k) = chk {
        assert!((k.v2 == Derivative::none()) == !p2);
        if p2 {
            let m = k.v2.unwrap_generic(Const::<2>, Const::<2>);
            assert!(eq32(m[(0, 1)], b) && eq32(m[(1, 0)], c));
        }
    }
    cover!(p2 && !p1);
}

/// dynamic storage (length 1: heap-backed parts of symbolic content are expensive for CBMC;
/// length 2 is the `_slow` twin of the thorough tier)
#[cfg_attr(kani, kani::proof)]
#[cfg_attr(kani, kani::unwind(4))]
pub fn c13_dualdvec_widen_narrow() {
    use nalgebra::{DVector, Dyn};
    let present = any_bool();
    let a = any_f32();
    let eps = if present { Derivative::some(DVector::<f32>::from_vec(vec![a])) } else { Derivative::none() };
    let x = DualVec::<f32, f32, Dyn>::new(any_f32(), eps);
    let w: DualVec<f64, f64, Dyn> = x.to_superset();
    assert!(same64(w.re, x.re as f64) && (w.eps == Derivative::none()) == !present);
    if present {
        let e = w.eps.clone().unwrap_generic(Dyn(1), U1);
        assert!(e.len() == 1 && same64(e[0], a as f64));
    }
    let r: Option<DualVec<f32, f32, Dyn>> = SubsetOf::from_superset(&w);
    assert!(r.is_some() == <DualVec<f32, f32, Dyn> as SubsetOf<DualVec<f64, f64, Dyn>>>::is_in_subset(&w));
    cover!(present);
}

#[cfg_attr(kani, kani::proof)]
#[cfg_attr(kani, kani::unwind(6))]
pub fn c13_dualdvec2_widen_narrow_slow() {
    use nalgebra::{DVector, Dyn};
    let present = any_bool();
    let (a, b) = (any_f32(), any_f32());
    let eps = if present { Derivative::some(DVector::<f32>::from_vec(vec![a, b])) } else { Derivative::none() };
    let x = DualVec::<f32, f32, Dyn>::new(any_f32(), eps);
    let w: DualVec<f64, f64, Dyn> = x.to_superset();
    assert!(same64(w.re, x.re as f64) && (w.eps == Derivative::none()) == !present);
    if present {
        let e = w.eps.clone().unwrap_generic(Dyn(2), U1);
        assert!(e.len() == 2 && same64(e[0], a as f64) && same64(e[1], b as f64));
    }
    let r: Option<DualVec<f32, f32, Dyn>> = SubsetOf::from_superset(&w);
    assert!(r.is_some() == <DualVec<f32, f32, Dyn> as SubsetOf<DualVec<f64, f64, Dyn>>>::is_in_subset(&w));
    cover!(present);
}

pub const LIST: &[(&str, fn())] = &[
    ("c13_dual2vec_widen_entries", c13_dual2vec_widen_entries),
    ("c13_dualdvec_widen_narrow", c13_dualdvec_widen_narrow),
    ("c13_dualdvec2_widen_narrow_slow", c13_dualdvec2_widen_narrow_slow),
    ("c13_dual_widen_roundtrip", c13_dual_widen_roundtrip),
    ("c13_dual_narrow_membership", c13_dual_narrow_membership),
    ("c13_dual2_narrow_membership", c13_dual2_narrow_membership),
    ("c13_dualvec_narrow_presence", c13_dualvec_narrow_presence),
    ("c13_dualvec_widen_presence", c13_dualvec_widen_presence),
    ("c13_float_lift_extract", c13_float_lift_extract),
];
