//! C16: the derived Serialize / Deserialize impls round-trip every part bit for bit through an
//! in-memory data format that represents every float exactly; every part is stored under its own
//! field name, in declaration order, and nothing else is stored.
use crate::util::*;
use num_dual::*;
use serde::de::{self, DeserializeSeed, MapAccess, Visitor};
use serde::ser::{self, SerializeStruct};
use serde::{Deserialize, Serialize};
use std::fmt;

#[derive(Clone, Copy, PartialEq, Debug)]
pub enum Rec {
    Empty,
    Begin(&'static str, usize),
    Key(&'static str),
    F64(u64),
    F32(u32),
    End,
}

pub const CAP: usize = 48;

pub struct Tape {
    pub recs: [Rec; CAP],
    pub len: usize,
    pub pos: usize,
}

impl Tape {
    pub fn new() -> Self {
        Tape { recs: [Rec::Empty; CAP], len: 0, pos: 0 }
    }
    fn push(&mut self, r: Rec) -> Result<(), E> {
        if self.len >= CAP {
            return Err(E);
        }
        self.recs[self.len] = r;
        self.len += 1;
        Ok(())
    }
    fn next(&mut self) -> Result<Rec, E> {
        if self.pos >= self.len {
            return Err(E);
        }
        let r = self.recs[self.pos];
        self.pos += 1;
        Ok(r)
    }
    fn peek(&self) -> Result<Rec, E> {
        if self.pos >= self.len {
            return Err(E);
        }
        Ok(self.recs[self.pos])
    }
}

#[derive(Debug)]
pub struct E;
impl fmt::Display for E {
    fn fmt(&self, _f: &mut fmt::Formatter) -> fmt::Result {
        Ok(())
    }
}
impl std::error::Error for E {}
impl ser::Error for E {
    fn custom<T: fmt::Display>(_msg: T) -> Self {
        E
    }
}
impl de::Error for E {
    fn custom<T: fmt::Display>(_msg: T) -> Self {
        E
    }
}

// ------------------------------------------------------------------ serializer
pub struct StructSer<'a> {
    t: &'a mut Tape,
}

impl<'a> SerializeStruct for StructSer<'a> {
    type Ok = ();
    type Error = E;
    fn serialize_field<T: ?Sized + Serialize>(&mut self, key: &'static str, value: &T) -> Result<(), E> {
        self.t.push(Rec::Key(key))?;
        value.serialize(&mut *self.t)
    }
    fn end(self) -> Result<(), E> {
        self.t.push(Rec::End)
    }
}

macro_rules! unsupported {
    ($($m:ident($($t:ty),*)),* $(,)?) => { $(
        fn $m(self, $(_: $t),*) -> Result<(), E> { Err(E) }
    )* };
}

impl<'a> ser::Serializer for &'a mut Tape {
    type Ok = ();
    type Error = E;
    type SerializeSeq = ser::Impossible<(), E>;
    type SerializeTuple = ser::Impossible<(), E>;
    type SerializeTupleStruct = ser::Impossible<(), E>;
    type SerializeTupleVariant = ser::Impossible<(), E>;
    type SerializeMap = ser::Impossible<(), E>;
    type SerializeStruct = StructSer<'a>;
    type SerializeStructVariant = ser::Impossible<(), E>;

    fn serialize_f64(self, v: f64) -> Result<(), E> {
        self.push(Rec::F64(v.to_bits()))
    }
    fn serialize_f32(self, v: f32) -> Result<(), E> {
        self.push(Rec::F32(v.to_bits()))
    }
    fn serialize_struct(self, name: &'static str, len: usize) -> Result<StructSer<'a>, E> {
        self.push(Rec::Begin(name, len))?;
        Ok(StructSer { t: self })
    }
    unsupported!(
        serialize_bool(bool), serialize_i8(i8), serialize_i16(i16), serialize_i32(i32), serialize_i64(i64),
        serialize_u8(u8), serialize_u16(u16), serialize_u32(u32), serialize_u64(u64), serialize_char(char),
        serialize_str(&str), serialize_bytes(&[u8]), serialize_unit(), serialize_unit_struct(&'static str),
        serialize_unit_variant(&'static str, u32, &'static str)
    );
    fn serialize_none(self) -> Result<(), E> {
        Err(E)
    }
    fn serialize_some<T: ?Sized + Serialize>(self, _v: &T) -> Result<(), E> {
        Err(E)
    }
    fn serialize_newtype_struct<T: ?Sized + Serialize>(self, _n: &'static str, _v: &T) -> Result<(), E> {
        Err(E)
    }
    fn serialize_newtype_variant<T: ?Sized + Serialize>(
        self, _n: &'static str, _i: u32, _v: &'static str, _x: &T,
    ) -> Result<(), E> {
        Err(E)
    }
    fn serialize_seq(self, _l: Option<usize>) -> Result<Self::SerializeSeq, E> {
        Err(E)
    }
    fn serialize_tuple(self, _l: usize) -> Result<Self::SerializeTuple, E> {
        Err(E)
    }
    fn serialize_tuple_struct(self, _n: &'static str, _l: usize) -> Result<Self::SerializeTupleStruct, E> {
        Err(E)
    }
    fn serialize_tuple_variant(
        self, _n: &'static str, _i: u32, _v: &'static str, _l: usize,
    ) -> Result<Self::SerializeTupleVariant, E> {
        Err(E)
    }
    fn serialize_map(self, _l: Option<usize>) -> Result<Self::SerializeMap, E> {
        Err(E)
    }
    fn serialize_struct_variant(
        self, _n: &'static str, _i: u32, _v: &'static str, _l: usize,
    ) -> Result<Self::SerializeStructVariant, E> {
        Err(E)
    }
}

// ------------------------------------------------------------------ deserializer
struct KeyDe(&'static str);
impl<'de> de::Deserializer<'de> for KeyDe {
    type Error = E;
    fn deserialize_any<V: Visitor<'de>>(self, v: V) -> Result<V::Value, E> {
        v.visit_str(self.0)
    }
    serde::forward_to_deserialize_any! {
        bool i8 i16 i32 i64 i128 u8 u16 u32 u64 u128 f32 f64 char str string bytes byte_buf option unit
        unit_struct newtype_struct seq tuple tuple_struct map struct enum identifier ignored_any
    }
}

struct Fields<'a> {
    t: &'a mut Tape,
}
impl<'de, 'a> MapAccess<'de> for Fields<'a> {
    type Error = E;
    fn next_key_seed<K: DeserializeSeed<'de>>(&mut self, seed: K) -> Result<Option<K::Value>, E> {
        match self.t.next()? {
            Rec::End => Ok(None),
            Rec::Key(k) => seed.deserialize(KeyDe(k)).map(Some),
            _ => Err(E),
        }
    }
    fn next_value_seed<V: DeserializeSeed<'de>>(&mut self, seed: V) -> Result<V::Value, E> {
        seed.deserialize(&mut *self.t)
    }
}

impl<'de, 'a> de::Deserializer<'de> for &'a mut Tape {
    type Error = E;
    fn deserialize_any<V: Visitor<'de>>(self, v: V) -> Result<V::Value, E> {
        match self.next()? {
            Rec::F64(b) => v.visit_f64(f64::from_bits(b)),
            Rec::F32(b) => v.visit_f32(f32::from_bits(b)),
            Rec::Begin(_, _) => v.visit_map(Fields { t: self }),
            _ => Err(E),
        }
    }
    /// an unknown field is an error in this format (and keeps serde's recursive IgnoredAny visitor
    /// out of the model)
    fn deserialize_ignored_any<V: Visitor<'de>>(self, _v: V) -> Result<V::Value, E> {
        Err(E)
    }
    serde::forward_to_deserialize_any! {
        bool i8 i16 i32 i64 i128 u8 u16 u32 u64 u128 f32 f64 char str string bytes byte_buf option unit
        unit_struct newtype_struct seq tuple tuple_struct map struct enum identifier
    }
}

pub fn to_tape<T: Serialize>(x: &T) -> Tape {
    let mut t = Tape::new();
    // no `expect`: its failure path drags core::fmt into the model
    if x.serialize(&mut t).is_err() {
        t.len = usize::MAX;
    }
    t
}
pub fn from_tape<T: for<'de> Deserialize<'de>>(t: &mut Tape) -> T {
    t.pos = 0;
    match T::deserialize(&mut *t) {
        Ok(v) => v,
        Err(_) => {
            assert!(false, "deserialization failed");
            loop {}
        }
    }
}

fn key_is(r: Rec, k: &str) -> bool {
    matches!(r, Rec::Key(s) if s == k)
}

// ------------------------------------------------------------------ harnesses
#[cfg_attr(kani, kani::proof)]
#[cfg_attr(kani, kani::unwind(16))]
pub fn c16_roundtrip_dual64() {
    let x = Dual64::new(any_f64(), any_f64());
    let mut t = to_tape(&x);
    assert!(t.len == 6);
    assert!(matches!(t.recs[0], Rec::Begin("Dual", 2)));
    assert!(key_is(t.recs[1], "re") && t.recs[2] == Rec::F64(x.re.to_bits()));
    assert!(key_is(t.recs[3], "eps") && t.recs[4] == Rec::F64(x.eps.to_bits()));
    assert!(t.recs[5] == Rec::End);
    let y: Dual64 = from_tape(&mut t);
    assert!(same64(y.re, x.re) && same64(y.eps, x.eps));
    cover!(x.re.is_nan());
}

#[cfg_attr(kani, kani::proof)]
#[cfg_attr(kani, kani::unwind(16))]
pub fn c16_roundtrip_dual32_dual2() {
    let x = Dual32::new(any_f32(), any_f32());
    let mut t = to_tape(&x);
    assert!(t.len == 6 && t.recs[2] == Rec::F32(x.re.to_bits()) && t.recs[4] == Rec::F32(x.eps.to_bits()));
    let y: Dual32 = from_tape(&mut t);
    assert!(same32(y.re, x.re) && same32(y.eps, x.eps));
    let d = Dual2_64::new(any_f64(), any_f64(), any_f64());
    let mut t = to_tape(&d);
    assert!(t.len == 8 && matches!(t.recs[0], Rec::Begin("Dual2", 3)));
    assert!(key_is(t.recs[1], "re") && key_is(t.recs[3], "v1") && key_is(t.recs[5], "v2"));
    assert!(t.recs[2] == Rec::F64(d.re.to_bits()) && t.recs[4] == Rec::F64(d.v1.to_bits()) && t.recs[6] == Rec::F64(d.v2.to_bits()));
    let e: Dual2_64 = from_tape(&mut t);
    assert!(same64(e.re, d.re) && same64(e.v1, d.v1) && same64(e.v2, d.v2));
    cover!(true);
}

#[cfg_attr(kani, kani::proof)]
#[cfg_attr(kani, kani::unwind(16))]
pub fn c16_roundtrip_dual3() {
    let d = Dual3_64::new(any_f64(), any_f64(), any_f64(), any_f64());
    let mut t = to_tape(&d);
    assert!(t.len == 10 && matches!(t.recs[0], Rec::Begin("Dual3", 4)));
    assert!(key_is(t.recs[1], "re") && key_is(t.recs[3], "v1") && key_is(t.recs[5], "v2") && key_is(t.recs[7], "v3"));
    assert!(t.recs[8] == Rec::F64(d.v3.to_bits()) && t.recs[6] == Rec::F64(d.v2.to_bits()));
    let e: Dual3_64 = from_tape(&mut t);
    assert!(same64(e.re, d.re) && same64(e.v1, d.v1) && same64(e.v2, d.v2) && same64(e.v3, d.v3));
    cover!(true);
}

/// layout only (no deserialization): each part under its own field name, in order, nothing else
#[cfg_attr(kani, kani::proof)]
#[cfg_attr(kani, kani::unwind(16))]
pub fn c16_layout_hyperdual() {
    let h = HyperDual64::new(any_f64(), any_f64(), any_f64(), any_f64());
    let t = to_tape(&h);
    assert!(t.len == 10);
    assert!(matches!(t.recs[0], Rec::Begin("HyperDual", 4)));
    assert!(key_is(t.recs[1], "re") && key_is(t.recs[3], "eps1") && key_is(t.recs[5], "eps2") && key_is(t.recs[7], "eps1eps2"));
    assert!(t.recs[2] == Rec::F64(h.re.to_bits()) && t.recs[4] == Rec::F64(h.eps1.to_bits()));
    assert!(t.recs[6] == Rec::F64(h.eps2.to_bits()) && t.recs[8] == Rec::F64(h.eps1eps2.to_bits()));
    assert!(t.recs[9] == Rec::End);
    cover!(h.eps1eps2 == 0.0);
}

#[cfg_attr(kani, kani::proof)]
#[cfg_attr(kani, kani::unwind(16))]
pub fn c16_roundtrip_hyperdual() {
    let h = HyperDual64::new(any_f64(), any_f64(), any_f64(), any_f64());
    let mut t = to_tape(&h);
    let g: HyperDual64 = from_tape(&mut t);
    assert!(same64(g.re, h.re) && same64(g.eps1, h.eps1) && same64(g.eps2, h.eps2) && same64(g.eps1eps2, h.eps1eps2));
    cover!(true);
}

#[cfg_attr(kani, kani::proof)]
#[cfg_attr(kani, kani::unwind(16))]
pub fn c16_roundtrip_hyperhyperdual() {
    let h = HyperHyperDual64::new(
        any_f64(), any_f64(), any_f64(), any_f64(), any_f64(), any_f64(), any_f64(), any_f64(),
    );
    let mut t = to_tape(&h);
    assert!(t.len == 18 && matches!(t.recs[0], Rec::Begin("HyperHyperDual", 8)));
    let names = ["re", "eps1", "eps2", "eps3", "eps1eps2", "eps1eps3", "eps2eps3", "eps1eps2eps3"];
    let vals = [h.re, h.eps1, h.eps2, h.eps3, h.eps1eps2, h.eps1eps3, h.eps2eps3, h.eps1eps2eps3];
    let mut i = 0;
    while i < 8 {
        assert!(key_is(t.recs[1 + 2 * i], names[i]));
        assert!(t.recs[2 + 2 * i] == Rec::F64(vals[i].to_bits()));
        i += 1;
    }
    let g: HyperHyperDual64 = from_tape(&mut t);
    assert!(same64(g.re, h.re) && same64(g.eps1, h.eps1) && same64(g.eps2, h.eps2) && same64(g.eps3, h.eps3));
    assert!(same64(g.eps1eps2, h.eps1eps2) && same64(g.eps1eps3, h.eps1eps3) && same64(g.eps2eps3, h.eps2eps3));
    assert!(same64(g.eps1eps2eps3, h.eps1eps2eps3));
    cover!(true);
}

#[cfg_attr(kani, kani::proof)]
#[cfg_attr(kani, kani::unwind(16))]
pub fn c16_roundtrip_nested() {
    let x: Dual<Dual64, f64> = Dual::new(Dual64::new(any_f64(), any_f64()), Dual64::new(any_f64(), any_f64()));
    let mut t = to_tape(&x);
    // Begin Dual, Key re, [Begin .. End](6), Key eps, [..](6), End
    assert!(t.len == 16);
    assert!(key_is(t.recs[1], "re") && matches!(t.recs[2], Rec::Begin("Dual", 2)) && key_is(t.recs[8], "eps"));
    assert!(t.recs[4] == Rec::F64(x.re.re.to_bits()) && t.recs[6] == Rec::F64(x.re.eps.to_bits()));
    assert!(t.recs[11] == Rec::F64(x.eps.re.to_bits()) && t.recs[13] == Rec::F64(x.eps.eps.to_bits()));
    let y: Dual<Dual64, f64> = from_tape(&mut t);
    assert!(same64(y.re.re, x.re.re) && same64(y.re.eps, x.re.eps) && same64(y.eps.re, x.eps.re) && same64(y.eps.eps, x.eps.eps));
    let z: Dual2<Dual64, f64> =
        Dual2::new(Dual64::new(any_f64(), any_f64()), Dual64::new(any_f64(), any_f64()), Dual64::new(any_f64(), any_f64()));
    let mut t = to_tape(&z);
    assert!(t.len == 2 + 3 * 7);
    let w: Dual2<Dual64, f64> = from_tape(&mut t);
    assert!(same64(w.v2.eps, z.v2.eps) && same64(w.v1.re, z.v1.re) && same64(w.re.eps, z.re.eps));
    assert!(same64(w.v2.re, z.v2.re) && same64(w.v1.eps, z.v1.eps) && same64(w.re.re, z.re.re));
    cover!(true);
}

/// layout-only twins (cheap even when a change makes the record count data dependent)
#[cfg_attr(kani, kani::proof)]
#[cfg_attr(kani, kani::unwind(16))]
pub fn c16_layout_dual_dual2_dual3() {
    let x = Dual64::new(any_f64(), any_f64());
    let t = to_tape(&x);
    assert!(t.len == 6);
    assert!(key_is(t.recs[1], "re") && key_is(t.recs[3], "eps") && t.recs[5] == Rec::End);
    assert!(t.recs[2] == Rec::F64(x.re.to_bits()) && t.recs[4] == Rec::F64(x.eps.to_bits()));
    let d = Dual2_64::new(any_f64(), any_f64(), any_f64());
    let t = to_tape(&d);
    assert!(t.len == 8);
    assert!(key_is(t.recs[1], "re") && key_is(t.recs[3], "v1") && key_is(t.recs[5], "v2") && t.recs[7] == Rec::End);
    assert!(t.recs[2] == Rec::F64(d.re.to_bits()) && t.recs[4] == Rec::F64(d.v1.to_bits()) && t.recs[6] == Rec::F64(d.v2.to_bits()));
    let e = Dual3_64::new(any_f64(), any_f64(), any_f64(), any_f64());
    let t = to_tape(&e);
    assert!(t.len == 10);
    assert!(key_is(t.recs[1], "re") && key_is(t.recs[3], "v1") && key_is(t.recs[5], "v2") && key_is(t.recs[7], "v3"));
    assert!(t.recs[2] == Rec::F64(e.re.to_bits()) && t.recs[4] == Rec::F64(e.v1.to_bits()));
    assert!(t.recs[6] == Rec::F64(e.v2.to_bits()) && t.recs[8] == Rec::F64(e.v3.to_bits()) && t.recs[9] == Rec::End);
    cover!(x.eps == 0.0);
}

#[cfg_attr(kani, kani::proof)]
#[cfg_attr(kani, kani::unwind(16))]
pub fn c16_layout_hyperhyperdual_f32() {
    let h = HyperHyperDual64::new(
        any_f64(), any_f64(), any_f64(), any_f64(), any_f64(), any_f64(), any_f64(), any_f64(),
    );
    let t = to_tape(&h);
    assert!(t.len == 18);
    let names = ["re", "eps1", "eps2", "eps3", "eps1eps2", "eps1eps3", "eps2eps3", "eps1eps2eps3"];
    let vals = [h.re, h.eps1, h.eps2, h.eps3, h.eps1eps2, h.eps1eps3, h.eps2eps3, h.eps1eps2eps3];
    let mut i = 0;
    while i < 8 {
        assert!(key_is(t.recs[1 + 2 * i], names[i]));
        assert!(t.recs[2 + 2 * i] == Rec::F64(vals[i].to_bits()));
        i += 1;
    }
    assert!(t.recs[17] == Rec::End);
    let g = HyperDual32::new(any_f32(), any_f32(), any_f32(), any_f32());
    let t = to_tape(&g);
    assert!(t.len == 10);
    assert!(t.recs[2] == Rec::F32(g.re.to_bits()) && t.recs[8] == Rec::F32(g.eps1eps2.to_bits()));
    cover!(true);
}

pub const LIST: &[(&str, fn())] = &[
    ("c16_layout_dual_dual2_dual3", c16_layout_dual_dual2_dual3),
    ("c16_layout_hyperhyperdual_f32", c16_layout_hyperhyperdual_f32),
    ("c16_roundtrip_dual64", c16_roundtrip_dual64),
    ("c16_roundtrip_dual32_dual2", c16_roundtrip_dual32_dual2),
    ("c16_roundtrip_dual3", c16_roundtrip_dual3),
    ("c16_layout_hyperdual", c16_layout_hyperdual),
    ("c16_roundtrip_hyperdual", c16_roundtrip_hyperdual),
    ("c16_roundtrip_hyperhyperdual", c16_roundtrip_hyperhyperdual),
    ("c16_roundtrip_nested", c16_roundtrip_nested),
];
