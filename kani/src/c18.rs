//! C18: Display lists the real part followed by every present derivative part in a fixed order,
//! each followed by its documented symbol, and omits absent parts. The leaves are tokens whose
//! Display writes one symbolic ASCII letter (distinct letters make a dropped, duplicated or
//! swapped part a failing assertion); "every printed number parses back" is the leaf's (std float
//! Display) guarantee and an assumption of the claim.
use crate::util::*;
use nalgebra::{Const, Dyn, SMatrix, SVector, DVector};
use num_dual::*;
use num_traits::{FromPrimitive, Inv, Num, One, Signed, Zero};
use std::fmt::{self, Write};
use std::iter::{Product, Sum};
use std::ops::*;

#[derive(Clone, Copy, Debug, PartialEq)]
pub struct Tok(pub u8);

impl fmt::Display for Tok {
    fn fmt(&self, f: &mut fmt::Formatter) -> fmt::Result {
        f.write_char(self.0 as char)
    }
}

macro_rules! tok_binop {
    ($($tr:ident $m:ident),*) => { $(
        impl $tr for Tok { type Output = Tok; fn $m(self, _o: Tok) -> Tok { unimplemented!() } }
        impl<'a> $tr<&'a Tok> for Tok { type Output = Tok; fn $m(self, _o: &Tok) -> Tok { unimplemented!() } }
        impl $tr<f64> for Tok { type Output = Tok; fn $m(self, _o: f64) -> Tok { unimplemented!() } }
    )* };
}
tok_binop!(Add add, Sub sub, Mul mul, Div div, Rem rem);
macro_rules! tok_assign {
    ($($tr:ident $m:ident),*) => { $(
        impl $tr for Tok { fn $m(&mut self, _o: Tok) { unimplemented!() } }
        impl $tr<f64> for Tok { fn $m(&mut self, _o: f64) { unimplemented!() } }
    )* };
}
tok_assign!(AddAssign add_assign, SubAssign sub_assign, MulAssign mul_assign, DivAssign div_assign, RemAssign rem_assign);
impl Neg for Tok { type Output = Tok; fn neg(self) -> Tok { unimplemented!() } }
impl Zero for Tok { fn zero() -> Tok { Tok(b'0') } fn is_zero(&self) -> bool { self.0 == b'0' } }
impl One for Tok { fn one() -> Tok { Tok(b'1') } }
impl Num for Tok { type FromStrRadixErr = (); fn from_str_radix(_s: &str, _r: u32) -> Result<Tok, ()> { unimplemented!() } }
impl Signed for Tok {
    fn abs(&self) -> Tok { unimplemented!() }
    fn abs_sub(&self, _o: &Tok) -> Tok { unimplemented!() }
    fn signum(&self) -> Tok { unimplemented!() }
    fn is_positive(&self) -> bool { unimplemented!() }
    fn is_negative(&self) -> bool { unimplemented!() }
}
impl Inv for Tok { type Output = Tok; fn inv(self) -> Tok { unimplemented!() } }
impl Sum for Tok { fn sum<I: Iterator<Item = Tok>>(_i: I) -> Tok { unimplemented!() } }
impl Product for Tok { fn product<I: Iterator<Item = Tok>>(_i: I) -> Tok { unimplemented!() } }
impl FromPrimitive for Tok {
    fn from_i64(_n: i64) -> Option<Tok> { unimplemented!() }
    fn from_u64(_n: u64) -> Option<Tok> { unimplemented!() }
}
impl From<f64> for Tok { fn from(_f: f64) -> Tok { unimplemented!() } }

macro_rules! un { ($($m:ident),*) => { $( fn $m(&self) -> Self { unimplemented!() } )* }; }
impl DualNum<f64> for Tok {
    const NDERIV: usize = 0;
    type Inner = Tok;
    fn from_inner(i: Tok) -> Tok { i }
    fn re(&self) -> f64 { unimplemented!() }
    fn powi(&self, _n: i32) -> Tok { unimplemented!() }
    fn powf(&self, _n: f64) -> Tok { unimplemented!() }
    fn log(&self, _b: f64) -> Tok { unimplemented!() }
    fn sin_cos(&self) -> (Tok, Tok) { unimplemented!() }
    fn atan2(&self, _o: Tok) -> Tok { unimplemented!() }
    un!(recip, sqrt, cbrt, exp, exp2, exp_m1, ln, log2, log10, ln_1p, sin, cos, tan, asin, acos, atan, sinh,
        cosh, tanh, asinh, acosh, atanh, sph_j0, sph_j1, sph_j2);
}

/// fixed-size sink
pub struct Buf {
    pub b: [u8; 96],
    pub n: usize,
}
impl Buf {
    pub fn new() -> Buf { Buf { b: [0; 96], n: 0 } }
}
impl fmt::Write for Buf {
    fn write_str(&mut self, s: &str) -> fmt::Result {
        let bytes = s.as_bytes();
        let mut i = 0;
        while i < bytes.len() {
            if self.n >= 96 {
                return Err(fmt::Error);
            }
            self.b[self.n] = bytes[i];
            self.n += 1;
            i += 1;
        }
        Ok(())
    }
}

fn letter() -> u8 {
    let c = any_u8();
    // a letter, or the token of the leaf type's zero element: a part that is present but zero is
    // rendered like any other present part
    assume((c >= b'a' && c <= b'z') || c == b'0');
    c
}

/// compares the buffer with an expected sequence of pieces; a piece is either a literal or one
/// symbolic letter
pub enum P<'a> {
    L(&'a str),
    C(u8),
}
fn matches(buf: &Buf, pieces: &[P]) -> bool {
    let mut pos = 0;
    let mut k = 0;
    while k < pieces.len() {
        match &pieces[k] {
            P::C(c) => {
                if pos >= buf.n || buf.b[pos] != *c {
                    return false;
                }
                pos += 1;
            }
            P::L(s) => {
                let bs = s.as_bytes();
                let mut i = 0;
                while i < bs.len() {
                    if pos >= buf.n || buf.b[pos] != bs[i] {
                        return false;
                    }
                    pos += 1;
                    i += 1;
                }
            }
        }
        k += 1;
    }
    pos == buf.n
}

#[cfg_attr(kani, kani::proof)]
#[cfg_attr(kani, kani::unwind(24))]
pub fn c18_display_dual_dual2() {
    let (a, b, c) = (letter(), letter(), letter());
    let mut buf = Buf::new();
    write!(buf, "{}", Dual::<Tok, f64>::new(Tok(a), Tok(b))).unwrap();
    assert!(matches(&buf, &[P::C(a), P::L(" + "), P::C(b), P::L("ε")]));
    let mut buf = Buf::new();
    write!(buf, "{}", Dual2::<Tok, f64>::new(Tok(a), Tok(b), Tok(c))).unwrap();
    assert!(matches(&buf, &[P::C(a), P::L(" + "), P::C(b), P::L("ε1 + "), P::C(c), P::L("ε1²")]));
    cover!(a != b);
}

#[cfg_attr(kani, kani::proof)]
#[cfg_attr(kani, kani::unwind(24))]
pub fn c18_display_dual3_hyperdual() {
    let (a, b, c, d) = (letter(), letter(), letter(), letter());
    let mut buf = Buf::new();
    write!(buf, "{}", Dual3::<Tok, f64>::new(Tok(a), Tok(b), Tok(c), Tok(d))).unwrap();
    assert!(matches(&buf, &[P::C(a), P::L(" + "), P::C(b), P::L("v1 + "), P::C(c), P::L("v2 + "), P::C(d), P::L("v3")]));
    let mut buf = Buf::new();
    write!(buf, "{}", HyperDual::<Tok, f64>::new(Tok(a), Tok(b), Tok(c), Tok(d))).unwrap();
    assert!(matches(&buf, &[P::C(a), P::L(" + "), P::C(b), P::L("ε1 + "), P::C(c), P::L("ε2 + "), P::C(d), P::L("ε1ε2")]));
    cover!(a != d);
}

#[cfg_attr(kani, kani::proof)]
#[cfg_attr(kani, kani::unwind(24))]
pub fn c18_display_hyperhyperdual() {
    let l = [letter(), letter(), letter(), letter(), letter(), letter(), letter(), letter()];
    let mut buf = Buf::new();
    write!(
        buf, "{}",
        HyperHyperDual::<Tok, f64>::new(Tok(l[0]), Tok(l[1]), Tok(l[2]), Tok(l[3]), Tok(l[4]), Tok(l[5]), Tok(l[6]), Tok(l[7]))
    ).unwrap();
    assert!(matches(&buf, &[
        P::C(l[0]), P::L(" + "), P::C(l[1]), P::L("ε1 + "), P::C(l[2]), P::L("ε2 + "), P::C(l[3]), P::L("ε3 + "),
        P::C(l[4]), P::L("ε1ε2 + "), P::C(l[5]), P::L("ε1ε3 + "), P::C(l[6]), P::L("ε2ε3 + "), P::C(l[7]), P::L("ε1ε2ε3"),
    ]));
    cover!(true);
}

#[cfg_attr(kani, kani::proof)]
#[cfg_attr(kani, kani::unwind(24))]
pub fn c18_display_nested() {
    let (a, b, c, d) = (letter(), letter(), letter(), letter());
    let x: Dual<Dual<Tok, f64>, f64> = Dual::new(Dual::new(Tok(a), Tok(b)), Dual::new(Tok(c), Tok(d)));
    let mut buf = Buf::new();
    write!(buf, "{}", x).unwrap();
    assert!(matches(&buf, &[P::C(a), P::L(" + "), P::C(b), P::L("ε + "), P::C(c), P::L(" + "), P::C(d), P::L("εε")]));
    cover!(true);
}

/// vector types with one-component parts: every presence pattern; absent parts are omitted
/// entirely (no separator, no symbol)
#[cfg_attr(kani, kani::proof)]
#[cfg_attr(kani, kani::unwind(24))]
pub fn c18_display_dualvec1_presence() {
    let (a, b) = (letter(), letter());
    let present = any_bool();
    let eps = if present { Derivative::some(SVector::<Tok, 1>::new(Tok(b))) } else { Derivative::none() };
    let x = DualVec::<Tok, f64, Const<1>>::new(Tok(a), eps);
    let mut buf = Buf::new();
    write!(buf, "{}", x).unwrap();
    if present {
        assert!(matches(&buf, &[P::C(a), P::L(" + "), P::C(b), P::L("ε")]));
    } else {
        assert!(matches(&buf, &[P::C(a)]));
    }
    cover!(present);
    cover!(!present);
}

#[cfg_attr(kani, kani::proof)]
#[cfg_attr(kani, kani::unwind(24))]
pub fn c18_display_dual2vec1_hyperdualvec11_presence() {
    let (a, b, c, d) = (letter(), letter(), letter(), letter());
    let (p1, p2, p3) = (any_bool(), any_bool(), any_bool());
    let v1 = if p1 { Derivative::some(SMatrix::<Tok, 1, 1>::new(Tok(b))) } else { Derivative::none() };
    let v2 = if p2 { Derivative::some(SMatrix::<Tok, 1, 1>::new(Tok(c))) } else { Derivative::none() };
    let x = Dual2Vec::<Tok, f64, Const<1>>::new(Tok(a), v1, v2);
    let mut buf = Buf::new();
    write!(buf, "{}", x).unwrap();
    let mut exp: [P; 7] = [P::C(a), P::L(""), P::L(""), P::L(""), P::L(""), P::L(""), P::L("")];
    if p1 {
        exp[1] = P::L(" + ");
        exp[2] = P::C(b);
        exp[3] = P::L("ε1");
    }
    if p2 {
        exp[4] = P::L(" + ");
        exp[5] = P::C(c);
        exp[6] = P::L("ε1²");
    }
    assert!(matches(&buf, &exp));
    let e1 = if p1 { Derivative::some(SVector::<Tok, 1>::new(Tok(b))) } else { Derivative::none() };
    let e2 = if p2 { Derivative::some(SMatrix::<Tok, 1, 1>::new(Tok(c))) } else { Derivative::none() };
    let e12 = if p3 { Derivative::some(SMatrix::<Tok, 1, 1>::new(Tok(d))) } else { Derivative::none() };
    let h = HyperDualVec::<Tok, f64, Const<1>, Const<1>>::new(Tok(a), e1, e2, e12);
    let mut buf = Buf::new();
    write!(buf, "{}", h).unwrap();
    let mut exp: [P; 10] = [P::C(a), P::L(""), P::L(""), P::L(""), P::L(""), P::L(""), P::L(""), P::L(""), P::L(""), P::L("")];
    if p1 {
        exp[1] = P::L(" + ");
        exp[2] = P::C(b);
        exp[3] = P::L("ε1");
    }
    if p2 {
        exp[4] = P::L(" + ");
        exp[5] = P::C(c);
        exp[6] = P::L("ε2");
    }
    if p3 {
        exp[7] = P::L(" + ");
        exp[8] = P::C(d);
        exp[9] = P::L("ε1ε2");
    }
    assert!(matches(&buf, &exp));
    cover!(p1 && !p2 && p3);
}


/// every scalar type nested over Dual<Tok>: the inner number is rendered completely in every part
#[cfg_attr(kani, kani::proof)]
#[cfg_attr(kani, kani::unwind(24))]
pub fn c18_display_nested_hyperdual_dual2() {
    let l = [letter(), letter(), letter(), letter(), letter(), letter(), letter(), letter()];
    let d = |i: usize| Dual::<Tok, f64>::new(Tok(l[i]), Tok(l[i + 1]));
    let h: HyperDual<Dual<Tok, f64>, f64> = HyperDual::new(d(0), d(2), d(4), d(6));
    let mut buf = Buf::new();
    write!(buf, "{}", h).unwrap();
    assert!(matches(&buf, &[
        P::C(l[0]), P::L(" + "), P::C(l[1]), P::L("ε + "), P::C(l[2]), P::L(" + "), P::C(l[3]), P::L("εε1 + "),
        P::C(l[4]), P::L(" + "), P::C(l[5]), P::L("εε2 + "), P::C(l[6]), P::L(" + "), P::C(l[7]), P::L("εε1ε2"),
    ]));
    let x: Dual2<Dual<Tok, f64>, f64> = Dual2::new(d(0), d(2), d(4));
    let mut buf = Buf::new();
    write!(buf, "{}", x).unwrap();
    assert!(matches(&buf, &[
        P::C(l[0]), P::L(" + "), P::C(l[1]), P::L("ε + "), P::C(l[2]), P::L(" + "), P::C(l[3]), P::L("εε1 + "),
        P::C(l[4]), P::L(" + "), P::C(l[5]), P::L("εε1²"),
    ]));
    cover!(true);
}

#[cfg_attr(kani, kani::proof)]
#[cfg_attr(kani, kani::unwind(24))]
pub fn c18_display_nested_dual3() {
    let l = [letter(), letter(), letter(), letter(), letter(), letter(), letter(), letter()];
    let d = |i: usize| Dual::<Tok, f64>::new(Tok(l[i]), Tok(l[i + 1]));
    let x: Dual3<Dual<Tok, f64>, f64> = Dual3::new(d(0), d(2), d(4), d(6));
    let mut buf = Buf::new();
    write!(buf, "{}", x).unwrap();
    assert!(matches(&buf, &[
        P::C(l[0]), P::L(" + "), P::C(l[1]), P::L("ε + "), P::C(l[2]), P::L(" + "), P::C(l[3]), P::L("εv1 + "),
        P::C(l[4]), P::L(" + "), P::C(l[5]), P::L("εv2 + "), P::C(l[6]), P::L(" + "), P::C(l[7]), P::L("εv3"),
    ]));
    cover!(true);
}

pub const LIST: &[(&str, fn())] = &[
    ("c18_display_nested_hyperdual_dual2", c18_display_nested_hyperdual_dual2),
    ("c18_display_nested_dual3", c18_display_nested_dual3),
    ("c18_display_dual_dual2", c18_display_dual_dual2),
    ("c18_display_dual3_hyperdual", c18_display_dual3_hyperdual),
    ("c18_display_hyperhyperdual", c18_display_hyperhyperdual),
    ("c18_display_nested", c18_display_nested),
    ("c18_display_dualvec1_presence", c18_display_dualvec1_presence),
    ("c18_display_dual2vec1_hyperdualvec11_presence", c18_display_dual2vec1_hyperdualvec11_presence),
];
