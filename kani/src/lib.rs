//! Engine E2: Kani proof harnesses over the real f32/f64 instantiations of num-dual.
//! Every harness is an ordinary function: under Kani its inputs are symbolic, natively (replay
//! binary) they are the concrete values of a counterexample.
#![recursion_limit = "512"]
#![allow(clippy::all)]
#![allow(unused_imports)]
#[macro_use]
pub mod util;
pub mod c06;
pub mod c09;
pub mod c10;
pub mod c11;
pub mod c13;
pub mod c16;
pub mod c18;

pub fn harnesses() -> Vec<(&'static str, fn())> {
    let mut v: Vec<(&'static str, fn())> = vec![];
    v.extend(c06::LIST.iter().cloned());
    v.extend(c09::LIST.iter().cloned());
    v.extend(c10::LIST.iter().cloned());
    v.extend(c11::LIST.iter().cloned());
    v.extend(c13::LIST.iter().cloned());
    v.extend(c16::LIST.iter().cloned());
    v.extend(c18::LIST.iter().cloned());
    v
}
