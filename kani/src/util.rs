//! shared helpers: symbolic inputs (Kani) / recorded concrete inputs (native replay), UF stubs
#![allow(dead_code)]

#[cfg(not(kani))]
pub mod native {
    use std::cell::RefCell;
    thread_local! {
        pub static QUEUE: RefCell<Vec<Vec<u8>>> = RefCell::new(Vec::new());
        pub static POS: RefCell<usize> = RefCell::new(0);
        pub static OUTSIDE: RefCell<bool> = RefCell::new(false);
    }
    pub fn next(n: usize) -> Vec<u8> {
        let i = POS.with(|p| {
            let mut p = p.borrow_mut();
            *p += 1;
            *p - 1
        });
        QUEUE.with(|q| {
            let q = q.borrow();
            let mut v = q.get(i).cloned().unwrap_or_else(|| vec![0; n]);
            v.resize(n, 0);
            v
        })
    }
}

macro_rules! any_prim {
    ($name:ident, $t:ty, $n:expr) => {
        #[cfg(kani)]
        pub fn $name() -> $t {
            kani::any()
        }
        #[cfg(not(kani))]
        pub fn $name() -> $t {
            let b = native::next($n);
            let mut a = [0u8; $n];
            a.copy_from_slice(&b);
            <$t>::from_le_bytes(a)
        }
    };
}
any_prim!(any_u64, u64, 8);
any_prim!(any_u32, u32, 4);
any_prim!(any_i32, i32, 4);
any_prim!(any_u8, u8, 1);

#[cfg(kani)]
pub fn any_bool() -> bool {
    kani::any()
}
#[cfg(not(kani))]
pub fn any_bool() -> bool {
    native::next(1)[0] & 1 == 1
}

pub fn any_f64() -> f64 {
    f64::from_bits(any_u64())
}
pub fn any_f32() -> f32 {
    f32::from_bits(any_u32())
}

#[cfg(kani)]
pub fn assume(c: bool) {
    kani::assume(c)
}
#[cfg(not(kani))]
pub fn assume(c: bool) {
    if !c {
        native::OUTSIDE.with(|o| *o.borrow_mut() = true);
        std::panic::panic_any("outside-assumption");
    }
}

#[cfg(kani)]
#[macro_export]
macro_rules! cover {
    ($($t:tt)*) => { kani::cover!($($t)*) };
}
#[cfg(not(kani))]
#[macro_export]
macro_rules! cover {
    ($($t:tt)*) => {};
}

pub fn finite64(bound: f64) -> f64 {
    let x: f64 = any_f64();
    assume(x.is_finite() && x.abs() <= bound);
    x
}
pub fn finite32(bound: f32) -> f32 {
    let x: f32 = any_f32();
    assume(x.is_finite() && x.abs() <= bound);
    x
}
/// small integer-valued float in [-b, b]
pub fn small_int64(b: i32) -> f64 {
    let k = any_i32();
    assume(k >= -b && k <= b);
    k as f64
}
pub fn small_int32(b: i32) -> f32 {
    let k = any_i32();
    assume(k >= -b && k <= b);
    k as f32
}
pub fn same64(a: f64, b: f64) -> bool {
    a.to_bits() == b.to_bits()
}
pub fn same32(a: f32, b: f32) -> bool {
    a.to_bits() == b.to_bits()
}
/// bitwise equal, or both NaN (payload propagation through casts is not part of the claims)
pub fn eq64(a: f64, b: f64) -> bool {
    a.to_bits() == b.to_bits() || (a.is_nan() && b.is_nan())
}
pub fn eq32(a: f32, b: f32) -> bool {
    a.to_bits() == b.to_bits() || (a.is_nan() && b.is_nan())
}
