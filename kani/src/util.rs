//! shared helpers: symbolic inputs (Kani) / recorded concrete inputs (native replay), UF stubs
#![allow(dead_code)]

#[cfg(not(kani))]
pub mod native {
    use std::cell::RefCell;
    thread_local! {
        pub static QUEUE: RefCell<Vec<Vec<u8>>> = RefCell::new(Vec::new());
        pub static POS: RefCell<usize> = RefCell::new(0);
        pub static OUTSIDE: RefCell<bool> = RefCell::new(false);
    }
    pub fn next(n: usize) -> Vec<u8> {
        let i = POS.with(|p| {
            let mut p = p.borrow_mut();
            *p += 1;
            *p - 1
        });
        QUEUE.with(|q| {
            let q = q.borrow();
            let mut v = q.get(i).cloned().unwrap_or_else(|| vec![0; n]);
            v.resize(n, 0);
            v
        })
    }
}

macro_rules! any_prim {
    ($name:ident, $t:ty, $n:expr) => {
        #[cfg(kani)]
        pub fn $name() -> $t {
            kani::any()
        }
        #[cfg(not(kani))]
        pub fn $name() -> $t {
            let b = native::next($n);
            let mut a = [0u8; $n];
            a.copy_from_slice(&b);
            <$t>::from_le_bytes(a)
        }
    };
}
any_prim!(any_u64, u64, 8);
any_prim!(any_u32, u32, 4);
any_prim!(any_i32, i32, 4);
any_prim!(any_u8, u8, 1);

#[cfg(kani)]
pub fn any_bool() -> bool {
    kani::any()
}
#[cfg(not(kani))]
pub fn any_bool() -> bool {
    native::next(1)[0] & 1 == 1
}

pub fn any_f64() -> f64 {
    f64::from_bits(any_u64())
}
pub fn any_f32() -> f32 {
    f32::from_bits(any_u32())
}

#[cfg(kani)]
pub fn assume(c: bool) {
    kani::assume(c)
}
#[cfg(not(kani))]
pub fn assume(c: bool) {
    if !c {
        native::OUTSIDE.with(|o| *o.borrow_mut() = true);
        std::panic::panic_any("outside-assumption");
    }
}

#[cfg(kani)]
#[macro_export]
macro_rules! cover {
    ($($t:tt)*) => { kani::cover!($($t)*) };
}
#[cfg(not(kani))]
#[macro_export]
macro_rules! cover {
    ($($t:tt)*) => {};
}

pub fn finite64(bound: f64) -> f64 {
    let x: f64 = any_f64();
    assume(x.is_finite() && x.abs() <= bound);
    x
}
pub fn finite32(bound: f32) -> f32 {
    let x: f32 = any_f32();
    assume(x.is_finite() && x.abs() <= bound);
    x
}
/// small integer-valued float in [-b, b]
pub fn small_int64(b: i32) -> f64 {
    let k = any_i32();
    assume(k >= -b && k <= b);
    k as f64
}
pub fn small_int32(b: i32) -> f32 {
    let k = any_i32();
    assume(k >= -b && k <= b);
    k as f32
}
pub fn same64(a: f64, b: f64) -> bool {
    a.to_bits() == b.to_bits()
}
pub fn same32(a: f32, b: f32) -> bool {
    a.to_bits() == b.to_bits()
}
/// bitwise equal, or both NaN (payload propagation through casts is not part of the claims)
pub fn eq64(a: f64, b: f64) -> bool {
    a.to_bits() == b.to_bits() || (a.is_nan() && b.is_nan())
}
pub fn eq32(a: f32, b: f32) -> bool {
    a.to_bits() == b.to_bits() || (a.is_nan() && b.is_nan())
}

/// Uninterpreted-function stubs for libm: a memo table makes every stub a true function of its
/// argument bits (same argument => same result), otherwise arbitrary. IEEE facts that hold exactly
/// for every conforming libm at the special points the harnesses visit are built in
/// (sin(+-0) = +-0, cos(0) = 1, exp(0) = 1, exp_m1(0) = 0, ln_1p(0) = 0, atan(0) = 0, ...).
#[cfg(kani)]
pub mod uf {
    const CAP: usize = 12;
    static mut KEYS: [(u8, u64, u64); CAP] = [(0, 0, 0); CAP];
    static mut VALS: [u64; CAP] = [0; CAP];
    static mut N: usize = 0;

    pub fn call2(id: u8, a: u64, b: u64) -> u64 {
        unsafe {
            let mut i = 0;
            while i < N {
                if KEYS[i].0 == id && KEYS[i].1 == a && KEYS[i].2 == b {
                    return VALS[i];
                }
                i += 1;
            }
            assert!(N < CAP, "UF memo table overflow");
            let r: u64 = kani::any();
            KEYS[N] = (id, a, b);
            VALS[N] = r;
            N += 1;
            r
        }
    }
    fn c64(id: u8, x: f64) -> f64 {
        f64::from_bits(call2(id, x.to_bits(), 0))
    }
    fn c32(id: u8, x: f32) -> f32 {
        f32::from_bits(call2(id, x.to_bits() as u64, 1) as u32)
    }
    macro_rules! uf64 {
        ($($name:ident = $id:expr, $at0:expr);* $(;)?) => { $(
            pub fn $name(x: f64) -> f64 {
                let at0: Option<f64> = $at0;
                if x == 0.0 { if let Some(v) = at0 { return if v == 0.0 { x } else { v }; } }
                c64($id, x)
            }
        )* };
    }
    uf64! {
        sin = 1, Some(0.0); cos = 2, Some(1.0); tan = 3, Some(0.0); asin = 4, Some(0.0);
        acos = 5, None; atan = 6, Some(0.0); sinh = 7, Some(0.0); cosh = 8, Some(1.0);
        tanh = 9, Some(0.0); asinh = 10, Some(0.0); acosh = 11, None; atanh = 12, Some(0.0);
        exp = 13, Some(1.0); exp2 = 14, Some(1.0); exp_m1 = 15, Some(0.0); ln = 16, None;
        log2 = 17, None; log10 = 18, None; ln_1p = 19, Some(0.0); cbrt = 20, Some(0.0);
    }
    pub fn sin_cos(x: f64) -> (f64, f64) {
        (sin(x), cos(x))
    }
    /// ln with the one concrete value the harnesses need
    pub fn ln_c(x: f64) -> f64 {
        if x == 2.0 {
            return std::f64::consts::LN_2;
        }
        if x == 10.0 {
            return std::f64::consts::LN_10;
        }
        ln(x)
    }
    pub fn log(x: f64, b: f64) -> f64 {
        f64::from_bits(call2(21, x.to_bits(), b.to_bits()))
    }
    pub fn atan2(y: f64, x: f64) -> f64 {
        f64::from_bits(call2(22, y.to_bits(), x.to_bits()))
    }
    /// powf with the IEEE special cases at a zero base and a zero exponent
    pub fn powf(x: f64, p: f64) -> f64 {
        if p == 0.0 {
            return 1.0;
        }
        if x == 0.0 && !p.is_nan() {
            return if p > 0.0 { 0.0 } else { f64::INFINITY };
        }
        if x == 1.0 {
            return 1.0;
        }
        f64::from_bits(call2(23, x.to_bits(), p.to_bits()))
    }
    /// powi with exact special cases: x^0 = 1, 1^n = 1, (+0)^n
    pub fn powi(x: f64, n: i32) -> f64 {
        if n == 0 || x == 1.0 {
            return 1.0;
        }
        if n == 1 {
            return x;
        }
        if x == 0.0 {
            if n > 0 {
                return if n % 2 == 1 { x } else { 0.0 };
            }
            return if n % 2 != 0 { 1.0 / x } else { f64::INFINITY };
        }
        f64::from_bits(call2(24, x.to_bits(), n as u64))
    }
    pub fn sin32(x: f32) -> f32 {
        c32(31, x)
    }
    pub fn cos32(x: f32) -> f32 {
        c32(32, x)
    }
    pub fn exp32(x: f32) -> f32 {
        c32(33, x)
    }
    pub fn ln32(x: f32) -> f32 {
        c32(34, x)
    }
    pub fn tanh32(x: f32) -> f32 {
        c32(35, x)
    }
}

#[cfg(not(kani))]
pub mod uf {
    //! native replay uses the real libm
    pub fn sin(x: f64) -> f64 { x.sin() }
    pub fn cos(x: f64) -> f64 { x.cos() }
    pub fn exp(x: f64) -> f64 { x.exp() }
    pub fn ln(x: f64) -> f64 { x.ln() }
    pub fn atan(x: f64) -> f64 { x.atan() }
    pub fn asin(x: f64) -> f64 { x.asin() }
    pub fn acos(x: f64) -> f64 { x.acos() }
    pub fn sinh(x: f64) -> f64 { x.sinh() }
    pub fn cosh(x: f64) -> f64 { x.cosh() }
    pub fn asinh(x: f64) -> f64 { x.asinh() }
    pub fn acosh(x: f64) -> f64 { x.acosh() }
    pub fn atanh(x: f64) -> f64 { x.atanh() }
    pub fn exp2(x: f64) -> f64 { x.exp2() }
    pub fn exp_m1(x: f64) -> f64 { x.exp_m1() }
    pub fn ln_1p(x: f64) -> f64 { x.ln_1p() }
    pub fn log2(x: f64) -> f64 { x.log2() }
    pub fn log10(x: f64) -> f64 { x.log10() }
    pub fn cbrt(x: f64) -> f64 { x.cbrt() }
    pub fn powf(x: f64, p: f64) -> f64 { x.powf(p) }
    pub fn powi(x: f64, n: i32) -> f64 { x.powi(n) }
}

/// "Tag" stubs: every libm function returns its own distinct constant (with the exact values of
/// ln 2 and ln 10 the crate itself asks for). The surrounding float arithmetic is then concrete
/// and CBMC simply executes it; a method forwarded to the wrong function yields another tag.
#[cfg(kani)]
pub mod tag {
    pub fn sin(_x: f64) -> f64 { 0.28125 }
    pub fn cos(_x: f64) -> f64 { 0.59375 }
    pub fn sin_cos(x: f64) -> (f64, f64) { (sin(x), cos(x)) }
    pub fn tan(_x: f64) -> f64 { 0.65625 }
    pub fn asin(_x: f64) -> f64 { 0.78125 }
    pub fn acos(_x: f64) -> f64 { 0.84375 }
    pub fn atan(_x: f64) -> f64 { 0.90625 }
    pub fn sinh(_x: f64) -> f64 { 1.03125 }
    pub fn cosh(_x: f64) -> f64 { 1.09375 }
    pub fn tanh(_x: f64) -> f64 { 1.15625 }
    pub fn asinh(_x: f64) -> f64 { 1.21875 }
    pub fn acosh(_x: f64) -> f64 { 1.34375 }
    pub fn atanh(_x: f64) -> f64 { 1.46875 }
    pub fn exp(_x: f64) -> f64 { 1.28125 }
    pub fn exp2(_x: f64) -> f64 { 1.40625 }
    pub fn exp_m1(_x: f64) -> f64 { 1.53125 }
    pub fn ln(x: f64) -> f64 {
        if x == 2.0 { std::f64::consts::LN_2 } else if x == 10.0 { std::f64::consts::LN_10 } else { -0.71875 }
    }
    pub fn ln_1p(_x: f64) -> f64 { -0.40625 }
    pub fn log2(_x: f64) -> f64 { -1.03125 }
    pub fn log10(_x: f64) -> f64 { -0.34375 }
    pub fn cbrt(_x: f64) -> f64 { 0.96875 }
    pub fn powi(_x: f64, n: i32) -> f64 { 2.09375 + n as f64 }
    pub fn powf(_x: f64, _p: f64) -> f64 { 0.46875 }
    pub fn atan2(_y: f64, _x: f64) -> f64 { 0.15625 }
}
