// Extracts the repository's own `impl_dual_num_float!` macro text out of /repo/src/lib.rs so
// that the plain-float leaf logic traced for the symbolic scalar `S` is the repository's text.
use std::{env, fs, path::PathBuf};

fn main() {
    let repo = env::var("SYMTRACE_REPO").unwrap_or_else(|_| "/repo".into());
    let src = format!("{repo}/src/lib.rs");
    println!("cargo:rerun-if-changed={src}");
    println!("cargo:rerun-if-env-changed=SYMTRACE_REPO");
    let text = fs::read_to_string(&src).expect("read lib.rs");
    let key = "macro_rules! impl_dual_num_float";
    let start = text.find(key).expect("impl_dual_num_float! not found in lib.rs");
    let bytes = text.as_bytes();
    let mut i = start;
    while bytes[i] != b'{' {
        i += 1;
    }
    let mut depth = 0i32;
    let mut end = i;
    for (k, &c) in bytes[i..].iter().enumerate() {
        if c == b'{' {
            depth += 1;
        } else if c == b'}' {
            depth -= 1;
            if depth == 0 {
                end = i + k + 1;
                break;
            }
        }
    }
    let out = PathBuf::from(env::var("OUT_DIR").unwrap()).join("leaf_macro.rs");
    fs::write(out, &text[start..end]).unwrap();
}
