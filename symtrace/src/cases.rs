//! Case kinds: each is a small generic driver that builds operands of a shape from named
//! inputs, calls the repository's real generic code and flattens the results into leaves.
use crate::fl::{Fl, Val};
use crate::shapes::Shape;
use num_dual::DualNum;
use num_traits::{Inv, One, Signed, Zero};
use std::ops::*;

#[derive(Default, Clone, Debug)]
pub struct CaseOut {
    pub inputs: Vec<(String, Vec<Option<Val>>)>,
    pub scalars: Vec<(String, Val)>,
    pub outputs: Vec<(String, Vec<Option<Val>>)>,
    pub flags: Vec<(String, bool)>,
}

pub fn flat<F: Fl, Sh: Shape<F>>(n: &Sh::N) -> Vec<Option<Val>> {
    let mut v = vec![];
    Sh::leaves(n, &mut v);
    v.into_iter().map(|o| o.map(|f| f.val())).collect()
}

pub struct Io<F: Fl> {
    pub out: CaseOut,
    pres: u64,
    k: u32,
    _f: std::marker::PhantomData<F>,
}

impl<F: Fl> Io<F> {
    pub fn new(pres: u64) -> Self {
        Io {
            out: CaseOut::default(),
            pres,
            k: 0,
            _f: Default::default(),
        }
    }
    pub fn input<Sh: Shape<F>>(&mut self, name: &str) -> Sh::N {
        let mut pres = self.pres;
        let mut k = self.k;
        let n = Sh::build(name, &mut || {
            let b = (pres >> k) & 1 == 1;
            k += 1;
            b
        });
        pres = pres; // silence
        let _ = pres;
        self.k = k;
        self.out.inputs.push((name.to_string(), flat::<F, Sh>(&n)));
        n
    }
    pub fn scalar(&mut self, name: &str) -> F {
        let f = F::input(name);
        self.out.scalars.push((name.to_string(), f.val()));
        f
    }
    pub fn output<Sh: Shape<F>>(&mut self, name: &str, n: &Sh::N) {
        self.out.outputs.push((name.to_string(), flat::<F, Sh>(n)));
    }
    pub fn output_scalar(&mut self, name: &str, f: F) {
        self.out.outputs.push((name.to_string(), vec![Some(f.val())]));
    }
    pub fn flag(&mut self, name: &str, b: bool) {
        self.out.flags.push((name.to_string(), b));
    }
}

pub const UNARY: &[&str] = &[
    "recip", "sqrt", "cbrt", "exp", "exp2", "exp_m1", "ln", "log2", "log10", "ln_1p", "sin", "cos",
    "tan", "asin", "acos", "atan", "sinh", "cosh", "tanh", "asinh", "acosh", "atanh", "sph_j0",
    "sph_j1", "sph_j2", "abs", "signum", "neg", "inv",
];

pub fn unary<F: Fl, D: DualNum<F>>(f: &str, x: &D) -> D
where
    for<'a> &'a D: Neg<Output = D>,
{
    match f {
        "recip" => x.recip(),
        "sqrt" => x.sqrt(),
        "cbrt" => x.cbrt(),
        "exp" => x.exp(),
        "exp2" => x.exp2(),
        "exp_m1" => x.exp_m1(),
        "ln" => x.ln(),
        "log2" => x.log2(),
        "log10" => x.log10(),
        "ln_1p" => x.ln_1p(),
        "sin" => x.sin(),
        "cos" => x.cos(),
        "tan" => x.tan(),
        "asin" => x.asin(),
        "acos" => x.acos(),
        "atan" => x.atan(),
        "sinh" => x.sinh(),
        "cosh" => x.cosh(),
        "tanh" => x.tanh(),
        "asinh" => x.asinh(),
        "acosh" => x.acosh(),
        "atanh" => x.atanh(),
        "sph_j0" => x.sph_j0(),
        "sph_j1" => x.sph_j1(),
        "sph_j2" => x.sph_j2(),
        "abs" => Signed::abs(x),
        "signum" => Signed::signum(x),
        "neg" => -x,
        "inv" => x.clone().inv(),
        _ => panic!("unknown unary {f}"),
    }
}

pub trait RefOps: Sized
where
    for<'a> &'a Self: Add<&'a Self, Output = Self>
        + Sub<&'a Self, Output = Self>
        + Mul<&'a Self, Output = Self>
        + Div<&'a Self, Output = Self>
        + Add<Self, Output = Self>
        + Sub<Self, Output = Self>
        + Mul<Self, Output = Self>
        + Div<Self, Output = Self>
        + Neg<Output = Self>,
{
}
impl<T> RefOps for T where
    for<'a> &'a T: Add<&'a T, Output = T>
        + Sub<&'a T, Output = T>
        + Mul<&'a T, Output = T>
        + Div<&'a T, Output = T>
        + Add<T, Output = T>
        + Sub<T, Output = T>
        + Mul<T, Output = T>
        + Div<T, Output = T>
        + Neg<Output = T>
{
}

pub fn binop<D>(op: &str, a: &D, b: &D) -> D
where
    for<'a> &'a D: Add<&'a D, Output = D>
        + Sub<&'a D, Output = D>
        + Mul<&'a D, Output = D>
        + Div<&'a D, Output = D>,
{
    match op {
        "add" => a + b,
        "sub" => a - b,
        "mul" => a * b,
        "div" => a / b,
        _ => panic!("unknown binop {op}"),
    }
}

/// Runs one case kind on shape `Sh`. `kind` grammar (':'-separated):
///   un:<f> | bin:<op> | atan2 | powd | powi:<n> | powf | powfc:<v> | log | sincos | abs_sub |
///   mul_add | forms:<op> | assign:<op> | scalar:<op> | negforms | sumprod:<k> | consts |
///   fromprim | az:<inner kind> | cmp
pub fn run_kind<F: Fl, Sh: Shape<F>>(kind: &str, pres: u64) -> CaseOut
where
    for<'a> &'a Sh::N: Add<&'a Sh::N, Output = Sh::N>
        + Sub<&'a Sh::N, Output = Sh::N>
        + Mul<&'a Sh::N, Output = Sh::N>
        + Div<&'a Sh::N, Output = Sh::N>
        + Add<Sh::N, Output = Sh::N>
        + Sub<Sh::N, Output = Sh::N>
        + Mul<Sh::N, Output = Sh::N>
        + Div<Sh::N, Output = Sh::N>
        + Neg<Output = Sh::N>,
    Sh::N: Neg<Output = Sh::N>
        + for<'a> std::iter::Sum<&'a Sh::N>
        + for<'a> std::iter::Product<&'a Sh::N>
        + num_traits::FloatConst,
{
    let mut io = Io::<F>::new(pres);
    let parts: Vec<&str> = kind.split(':').collect();
    let (az, parts) = if parts[0] == "az" {
        (true, &parts[1..])
    } else {
        (false, &parts[..])
    };
    // `az` (absent == zero): every operand is additionally used with its absent parts replaced
    // by explicit zero matrices; both results are reported.
    macro_rules! both {
        ($io:ident, [$($x:ident),*], $body:expr) => {{
            let r: Sh::N = $body;
            $io.output::<Sh>("y", &r);
            if az {
                $( let $x = Sh::zero_fill(&$x); )*
                let r: Sh::N = $body;
                $io.output::<Sh>("y_zf", &r);
            }
        }};
    }
    match parts[0] {
        "un" => {
            let x = io.input::<Sh>("x");
            let f = parts[1];
            both!(io, [x], unary::<F, Sh::N>(f, &x));
        }
        "sincos" => {
            let x = io.input::<Sh>("x");
            let (s, c) = x.sin_cos();
            io.output::<Sh>("sin", &s);
            io.output::<Sh>("cos", &c);
            if az {
                let x = Sh::zero_fill(&x);
                let (s, c) = x.sin_cos();
                io.output::<Sh>("sin_zf", &s);
                io.output::<Sh>("cos_zf", &c);
            }
        }
        "bin" => {
            let a = io.input::<Sh>("a");
            let b = io.input::<Sh>("b");
            let op = parts[1];
            both!(io, [a, b], binop(op, &a, &b));
        }
        "atan2" => {
            let a = io.input::<Sh>("a");
            let b = io.input::<Sh>("b");
            both!(io, [a, b], a.atan2(b.clone()));
        }
        "powd" => {
            let a = io.input::<Sh>("a");
            let b = io.input::<Sh>("b");
            both!(io, [a, b], a.powd(b.clone()));
        }
        "mul_add" => {
            let a = io.input::<Sh>("a");
            let b = io.input::<Sh>("b");
            let c = io.input::<Sh>("c");
            both!(io, [a, b, c], a.mul_add(b.clone(), c.clone()));
            let r2 = a.clone() * b.clone() + c.clone();
            io.output::<Sh>("ref", &r2);
        }
        "abs_sub" => {
            let a = io.input::<Sh>("a");
            let b = io.input::<Sh>("b");
            both!(io, [a, b], a.abs_sub(&b));
        }
        "powi" => {
            let x = io.input::<Sh>("x");
            let n: i32 = parts[1].parse().unwrap();
            both!(io, [x], x.powi(n));
        }
        "powf" => {
            let x = io.input::<Sh>("x");
            let n = io.scalar("n");
            both!(io, [x], x.powf(n));
        }
        "powfc" => {
            let x = io.input::<Sh>("x");
            let n = F::lit(parts[1].parse().unwrap());
            both!(io, [x], x.powf(n));
        }
        "log" => {
            let x = io.input::<Sh>("x");
            let b = io.scalar("b");
            both!(io, [x], x.log(b));
        }
        // ---------- syntactic forms (C08) ----------
        "forms" => {
            let a = io.input::<Sh>("a");
            let b = io.input::<Sh>("b");
            let op = parts[1];
            let r_rr = binop(op, &a, &b);
            let r_oo = match op {
                "add" => a.clone() + b.clone(),
                "sub" => a.clone() - b.clone(),
                "mul" => a.clone() * b.clone(),
                "div" => a.clone() / b.clone(),
                _ => panic!(),
            };
            let r_or = match op {
                "add" => a.clone() + &b,
                "sub" => a.clone() - &b,
                "mul" => a.clone() * &b,
                "div" => a.clone() / &b,
                _ => panic!(),
            };
            let r_ro = match op {
                "add" => &a + b.clone(),
                "sub" => &a - b.clone(),
                "mul" => &a * b.clone(),
                "div" => &a / b.clone(),
                _ => panic!(),
            };
            let mut r_as = a.clone();
            match op {
                "add" => r_as += b.clone(),
                "sub" => r_as -= b.clone(),
                "mul" => r_as *= b.clone(),
                "div" => r_as /= b.clone(),
                _ => panic!(),
            };
            io.output::<Sh>("ref_ref", &r_rr);
            io.output::<Sh>("own_own", &r_oo);
            io.output::<Sh>("own_ref", &r_or);
            io.output::<Sh>("ref_own", &r_ro);
            io.output::<Sh>("assign", &r_as);
        }
        "assign" => {
            // compound assignment with a dual right-hand side, on both representations (C07)
            let a = io.input::<Sh>("a");
            let b = io.input::<Sh>("b");
            let op = parts[1];
            let run = |a: &Sh::N, b: &Sh::N| -> Sh::N {
                let mut acc = a.clone();
                match op {
                    "add" => acc += b.clone(),
                    "sub" => acc -= b.clone(),
                    "mul" => acc *= b.clone(),
                    "div" => acc /= b.clone(),
                    _ => panic!(),
                };
                acc
            };
            both!(io, [a, b], run(&a, &b));
        }
        "negforms" => {
            let a = io.input::<Sh>("a");
            io.output::<Sh>("neg_ref", &(-&a));
            io.output::<Sh>("neg_own", &(-a.clone()));
            let b = io.input::<Sh>("b");
            io.output::<Sh>("inv", &b.clone().inv());
            io.output::<Sh>("recip", &b.recip());
        }
        "scalar" => {
            // a ∘ f (scalar on the right) vs a ∘ From(f), plus the assign form
            let a = io.input::<Sh>("a");
            let f = io.scalar("f");
            let op = parts[1];
            let lifted = Sh::N::from(f);
            let (r_s, r_d) = match op {
                "add" => (a.clone() + f, a.clone() + lifted.clone()),
                "sub" => (a.clone() - f, a.clone() - lifted.clone()),
                "mul" => (a.clone() * f, a.clone() * lifted.clone()),
                "div" => (a.clone() / f, a.clone() / lifted.clone()),
                _ => panic!(),
            };
            let mut r_as = a.clone();
            match op {
                "add" => r_as += f,
                "sub" => r_as -= f,
                "mul" => r_as *= f,
                "div" => r_as /= f,
                _ => panic!(),
            };
            io.output::<Sh>("scalar", &r_s);
            io.output::<Sh>("scalar_assign", &r_as);
            io.output::<Sh>("lifted", &r_d);
            if az {
                let a = Sh::zero_fill(&a);
                let r = match op {
                    "add" => a.clone() + f,
                    "sub" => a.clone() - f,
                    "mul" => a.clone() * f,
                    "div" => a.clone() / f,
                    _ => panic!(),
                };
                io.output::<Sh>("scalar_zf", &r);
            }
        }
        "sumprod" => {
            let k: usize = parts[1].parse().unwrap();
            let xs: Vec<Sh::N> = (0..k).map(|i| io.input::<Sh>(&format!("x{i}"))).collect();
            let s_own: Sh::N = xs.iter().cloned().sum();
            let s_ref: Sh::N = xs.iter().sum();
            let p_own: Sh::N = xs.iter().cloned().product();
            let p_ref: Sh::N = xs.iter().product();
            let s_fold = xs.iter().fold(Sh::N::zero(), |acc, c| acc + c.clone());
            let p_fold = xs.iter().fold(Sh::N::one(), |acc, c| acc * c.clone());
            io.output::<Sh>("sum_own", &s_own);
            io.output::<Sh>("sum_ref", &s_ref);
            io.output::<Sh>("sum_fold", &s_fold);
            io.output::<Sh>("prod_own", &p_own);
            io.output::<Sh>("prod_ref", &p_ref);
            io.output::<Sh>("prod_fold", &p_fold);
        }
        "consts" => {
            use num_traits::FloatConst;
            io.output::<Sh>("zero", &Sh::N::zero());
            io.output::<Sh>("one", &Sh::N::one());
            let f = io.scalar("f");
            io.output::<Sh>("from_f", &Sh::N::from(f));
            io.output::<Sh>("from_inner_of_from", &Sh::N::from(f));
            macro_rules! fc { ($($n:ident),*) => { $(
                io.output::<Sh>(concat!("const_", stringify!($n)), &<Sh::N as FloatConst>::$n());
                io.output_scalar(concat!("fconst_", stringify!($n)), <F as FloatConst>::$n());
            )* } }
            fc!(
                E, FRAC_1_PI, FRAC_1_SQRT_2, FRAC_2_PI, FRAC_2_SQRT_PI, FRAC_PI_2, FRAC_PI_3,
                FRAC_PI_4, FRAC_PI_6, FRAC_PI_8, LN_10, LN_2, LOG10_E, LOG2_E, PI, SQRT_2
            );
        }
        "fromprim" => {
            use num_traits::FromPrimitive;
            macro_rules! fp { ($($m:ident : $v:expr),*) => { $(
                io.output::<Sh>(stringify!($m), &<Sh::N as FromPrimitive>::$m($v).unwrap());
                io.output_scalar(concat!("f_", stringify!($m)), <F as FromPrimitive>::$m($v).unwrap());
            )* } }
            fp!(from_isize: -7, from_i8: -5, from_i16: -300, from_i32: 70000, from_i64: -9000000000,
                from_i128: 1234567890123, from_usize: 7, from_u8: 200, from_u16: 60000,
                from_u32: 4000000000, from_u64: 18000000000, from_u128: 99, from_f32: 0.15625,
                from_f64: -2.718281828);
        }
        other => panic!("unknown kind {other}"),
    }
    io.out
}

/// Comparison / predicate results against the real parts (C06); both operands carry arbitrary
/// derivative parts. Only for the four field-compatible types (and the plain float).
pub fn run_cmp<F: Fl, Sh: Shape<F>>(pres: u64) -> CaseOut
where
    Sh::N: PartialOrd,
{
    let mut io = Io::<F>::new(pres);
    let a = io.input::<Sh>("a");
    let b = io.input::<Sh>("b");
    let (ra, rb) = (a.re(), b.re());
    io.flag("lt", (a < b) == (ra < rb));
    io.flag("le", (a <= b) == (ra <= rb));
    io.flag("gt", (a > b) == (ra > rb));
    io.flag("ge", (a >= b) == (ra >= rb));
    io.flag("eq", (a == b) == (ra == rb));
    io.flag("ne", (a != b) == (ra != rb));
    io.flag("partial_cmp", a.partial_cmp(&b) == ra.partial_cmp(&rb));
    io.out
}

/// Zero / one / sign predicates (all types).
pub fn run_pred<F: Fl, Sh: Shape<F>>(pres: u64) -> CaseOut {
    let mut io = Io::<F>::new(pres);
    let a = io.input::<Sh>("a");
    let ra = a.re();
    io.flag("is_zero", a.is_zero() == ra.is_zero());
    io.flag("is_one", a.is_one() == ra.is_one());
    io.flag("is_positive", a.is_positive() == ra.is_positive());
    io.flag("is_negative", a.is_negative() == ra.is_negative());
    io.out
}

/// Direct use of the public `Derivative` container operators (all owned/borrowed forms), with
/// every presence pattern. Shapes: r x c with static or dynamic storage.
pub fn run_dv<F: Fl, R: nalgebra::Dim, C: nalgebra::Dim>(kind: &str, pres: u64, r: R, c: C) -> CaseOut
where
    nalgebra::DefaultAllocator: nalgebra::allocator::Allocator<R, C>
        + nalgebra::allocator::Allocator<C, R>
        + nalgebra::allocator::Allocator<C, C>
        + nalgebra::allocator::Allocator<R, R>,
    nalgebra::constraint::ShapeConstraint: nalgebra::constraint::SameNumberOfRows<R, R>
        + nalgebra::constraint::SameNumberOfRows<C, C>,
{
    use nalgebra::OMatrix;
    use num_dual::Derivative;
    let mut out = CaseOut::default();
    let mut k = 0u32;
    let (nr, nc) = (r.value(), c.value());
    let mut mk = |name: &str, out: &mut CaseOut, rr: usize, cc: usize| -> (bool, Vec<F>) {
        let present = (pres >> k) & 1 == 1;
        k += 1;
        let mut vals = vec![];
        let mut leaves = vec![];
        for j in 0..cc {
            for i in 0..rr {
                if present {
                    let v = F::input(&format!("{name}[{i},{j}]"));
                    vals.push(v);
                    leaves.push(Some(v.val()));
                } else {
                    leaves.push(None);
                }
            }
        }
        out.inputs.push((name.to_string(), leaves));
        (present, vals)
    };
    fn put<F: Fl, R2: nalgebra::Dim, C2: nalgebra::Dim>(
        out: &mut CaseOut,
        name: &str,
        d: &Derivative<F, F, R2, C2>,
        r: R2,
        c: C2,
    ) where
        nalgebra::DefaultAllocator: nalgebra::allocator::Allocator<R2, C2>,
    {
        let n = r.value() * c.value();
        if *d == Derivative::none() {
            out.outputs.push((name.to_string(), vec![None; n]));
        } else {
            let m = d.clone().unwrap_generic(r, c);
            out.outputs.push((name.to_string(), m.iter().map(|e| Some(e.val())).collect()));
        }
    }
    let parts: Vec<&str> = kind.split(':').collect();
    let op = parts[1];
    let form = parts.get(2).copied().unwrap_or("");
    let (pa, va) = mk("a", &mut out, nr, nc);
    let a: Derivative<F, F, R, C> = if pa {
        Derivative::some(OMatrix::from_iterator_generic(r, c, va))
    } else {
        Derivative::none()
    };
    match op {
        "add" | "sub" => {
            let (pb, vb) = mk("b", &mut out, nr, nc);
            let b: Derivative<F, F, R, C> = if pb {
                Derivative::some(OMatrix::from_iterator_generic(r, c, vb))
            } else {
                Derivative::none()
            };
            let y = match (op, form) {
                ("add", "own_own") => a.clone() + b.clone(),
                ("add", "own_ref") => a.clone() + &b,
                ("add", "ref_ref") => &a + &b,
                ("add", "assign") => {
                    let mut t = a.clone();
                    t += b.clone();
                    t
                }
                ("sub", "own_own") => a.clone() - b.clone(),
                ("sub", "own_ref") => a.clone() - &b,
                ("sub", "ref_ref") => &a - &b,
                ("sub", "assign") => {
                    let mut t = a.clone();
                    t -= b.clone();
                    t
                }
                _ => panic!("unknown dv form"),
            };
            put(&mut out, "y", &y, r, c);
        }
        "neg" => {
            let y = if form == "own" { -a.clone() } else { -&a };
            put(&mut out, "y", &y, r, c);
        }
        "mul_t" | "div_t" => {
            let t = F::input("t");
            out.scalars.push(("t".into(), t.val()));
            let y = match (op, form) {
                ("mul_t", "own") => a.clone() * t,
                ("mul_t", "ref") => &a * t,
                ("mul_t", "assign") => {
                    let mut x = a.clone();
                    x *= t;
                    x
                }
                ("div_t", "own") => a.clone() / t,
                ("div_t", "ref") => &a / t,
                ("div_t", "assign") => {
                    let mut x = a.clone();
                    x /= t;
                    x
                }
                _ => panic!("unknown dv form"),
            };
            put(&mut out, "y", &y, r, c);
        }
        "tr_mul" => {
            // a^T (c x r) * b (r x c) -> c x c
            let (pb, vb) = mk("b", &mut out, nr, nc);
            let b: Derivative<F, F, R, C> = if pb {
                Derivative::some(OMatrix::from_iterator_generic(r, c, vb))
            } else {
                Derivative::none()
            };
            let y = a.tr_mul(&b);
            put(&mut out, "y", &y, c, c);
        }
        "matmul" => {
            // a (r x c) * b (c x r) -> r x r
            let (pb, vb) = mk("b", &mut out, nc, nr);
            let b: Derivative<F, F, C, R> = if pb {
                Derivative::some(OMatrix::from_iterator_generic(c, r, vb))
            } else {
                Derivative::none()
            };
            let y = &a * &b;
            put(&mut out, "y", &y, r, r);
        }
        "unwrap" => {
            let m = a.clone().unwrap_generic(r, c);
            out.outputs
                .push(("y".into(), m.iter().map(|e| Some(e.val())).collect()));
        }
        _ => panic!("unknown dv op {op}"),
    }
    out
}

/// Generic evaluator of an expression program in reverse Polish notation over any `D: DualNum<F>`
/// (C03/C04). Tokens: x<i> | k<float> | dup:<k> | add sub mul div atan2 powd | muladd |
/// isum:<k> iprod:<k> | sq1p | powi:<n> | powf:<c> | scadd:<c> scsub:<c> scmul:<c> scdiv:<c> |
/// any unary function name of `unary`.
pub fn eval_rpn<F: Fl, D: DualNum<F>>(prog: &str, xs: &[D]) -> D
where
    for<'a> &'a D: Neg<Output = D>,
{
    let mut st: Vec<D> = vec![];
    for tok in prog.split(',') {
        let (op, arg) = match tok.split_once(':') {
            Some((a, b)) => (a, Some(b)),
            None => (tok, None),
        };
        if let Some(i) = op.strip_prefix('x') {
            if let Ok(i) = i.parse::<usize>() {
                st.push(xs[i].clone());
                continue;
            }
        }
        if let Some(v) = op.strip_prefix('k') {
            if let Ok(v) = v.parse::<f64>() {
                st.push(D::from(F::lit(v)));
                continue;
            }
        }
        match op {
            "dup" => {
                let k: usize = arg.unwrap().parse().unwrap();
                let v = st[k].clone();
                st.push(v);
            }
            "add" | "sub" | "mul" | "div" | "atan2" | "powd" => {
                let b = st.pop().unwrap();
                let a = st.pop().unwrap();
                st.push(match op {
                    "add" => a + b,
                    "sub" => a - b,
                    "mul" => a * b,
                    "div" => a / b,
                    "atan2" => a.atan2(b),
                    _ => a.powd(b),
                });
            }
            "addas" | "subas" | "mulas" | "divas" => {
                let b = st.pop().unwrap();
                let mut a = st.pop().unwrap();
                match op {
                    "addas" => a += b,
                    "subas" => a -= b,
                    "mulas" => a *= b,
                    _ => a /= b,
                };
                st.push(a);
            }
            "muladd" => {
                let c = st.pop().unwrap();
                let b = st.pop().unwrap();
                let a = st.pop().unwrap();
                st.push(a.mul_add(b, c));
            }
            "isum" | "iprod" => {
                let k: usize = arg.unwrap().parse().unwrap();
                let items: Vec<D> = st.split_off(st.len() - k);
                st.push(if op == "isum" {
                    items.into_iter().sum()
                } else {
                    items.into_iter().product()
                });
            }
            "sq1p" => {
                let a = st.pop().unwrap();
                st.push(a.clone() * a + F::lit(1.0));
            }
            "powi" => {
                let a = st.pop().unwrap();
                st.push(a.powi(arg.unwrap().parse().unwrap()));
            }
            "powf" => {
                let a = st.pop().unwrap();
                st.push(a.powf(F::lit(arg.unwrap().parse().unwrap())));
            }
            "scadd" | "scsub" | "scmul" | "scdiv" => {
                let a = st.pop().unwrap();
                let c = F::lit(arg.unwrap().parse().unwrap());
                st.push(match op {
                    "scadd" => a + c,
                    "scsub" => a - c,
                    "scmul" => a * c,
                    _ => a / c,
                });
            }
            f => {
                let a = st.pop().unwrap();
                st.push(unary::<F, D>(f, &a));
            }
        }
    }
    assert_eq!(st.len(), 1, "program leaves one value");
    st.pop().unwrap()
}

/// kind `prog;<nvars>;<rpn>` (';' separated because the program itself contains ':' and ',')
pub fn run_prog<F: Fl, Sh: Shape<F>>(kind: &str, pres: u64) -> CaseOut
where
    for<'a> &'a Sh::N: Neg<Output = Sh::N>,
{
    let parts: Vec<&str> = kind.split(';').collect();
    let nvars: usize = parts[1].parse().unwrap();
    let mut io = Io::<F>::new(pres);
    let xs: Vec<Sh::N> = (0..nvars).map(|i| io.input::<Sh>(&format!("x{i}"))).collect();
    let y = eval_rpn::<F, Sh::N>(parts[2], &xs);
    io.output::<Sh>("y", &y);
    io.out
}

/// The crate's own LU decomposition (feature `linalg`) over dual entries. kind `lu;<n>;<op>` with
/// op in solve | det | inverse. Inputs A{i}{j}, b{i}; a singular report sets the flag `singular`.
pub fn run_lu<F: Fl, Sh: Shape<F>>(kind: &str, pres: u64) -> CaseOut
where
    Sh::N: Copy,
{
    use ndarray::{Array1, Array2};
    use num_dual::linalg::LU;
    let parts: Vec<&str> = kind.split(';').collect();
    let n: usize = parts[1].parse().unwrap();
    let op = parts[2];
    let mut io = Io::<F>::new(pres);
    let mut a = Array2::<Sh::N>::from_elem((n, n), Sh::N::from(F::lit(0.0)));
    for i in 0..n {
        for j in 0..n {
            a[(i, j)] = io.input::<Sh>(&format!("A{i}{j}"));
        }
    }
    let lu = LU::<Sh::N, F>::new(a);
    match lu {
        Err(_) => io.flag("singular", true),
        Ok(lu) => {
            io.flag("singular", false);
            match op {
                "solve" => {
                    let mut b = Array1::<Sh::N>::from_elem(n, Sh::N::from(F::lit(0.0)));
                    for i in 0..n {
                        b[i] = io.input::<Sh>(&format!("b{i}"));
                    }
                    let x = lu.solve(&b);
                    for i in 0..n {
                        io.output::<Sh>(&format!("x{i}"), &x[i]);
                    }
                }
                "det" => {
                    let d = lu.determinant();
                    io.output::<Sh>("det", &d);
                }
                "inverse" => {
                    let inv = lu.inverse();
                    for i in 0..n {
                        for j in 0..n {
                            io.output::<Sh>(&format!("inv{i}{j}"), &inv[(i, j)]);
                        }
                    }
                }
                _ => panic!("lu op"),
            }
        }
    }
    io.out
}

/// The crate's Jacobi eigenvalue routine (feature `linalg`) over dual entries. kind
/// `jac;<n>;<max_iter>`: inputs are the upper triangle A{i}{j} (i <= j) of a symmetric matrix;
/// outputs the eigenvalues l{i} and the eigenvector matrix V{i}{j} as returned.
pub fn run_jac<F: Fl, Sh: Shape<F>>(kind: &str, pres: u64) -> CaseOut
where
    Sh::N: Copy,
{
    use ndarray::Array2;
    use num_dual::linalg::jacobi_eigenvalue;
    let parts: Vec<&str> = kind.split(';').collect();
    let n: usize = parts[1].parse().unwrap();
    let iters: usize = parts[2].parse().unwrap();
    let mut io = Io::<F>::new(pres);
    let mut a = Array2::<Sh::N>::from_elem((n, n), Sh::N::from(F::lit(0.0)));
    for i in 0..n {
        for j in i..n {
            let e = io.input::<Sh>(&format!("A{i}{j}"));
            a[(i, j)] = e;
            a[(j, i)] = e;
        }
    }
    let (l, v) = jacobi_eigenvalue::<Sh::N, F>(a, iters);
    for i in 0..n {
        io.output::<Sh>(&format!("l{i}"), &l[i]);
    }
    for i in 0..n {
        for j in 0..n {
            io.output::<Sh>(&format!("V{i}{j}"), &v[(i, j)]);
        }
    }
    io.out
}
