//! The twenty public derivative drivers, called with two kinds of closures:
//!  * probe: records the dual numbers it receives (seeding) and returns dual numbers whose every
//!    part is a fresh input (extraction / orientation);
//!  * cubic: a generic polynomial of total degree <= 3 with symbolic coefficients, evaluated in
//!    dual arithmetic (end-to-end derivative values).
//! Kind grammar: drv:<driver>:<dims>:<probe|cubic|err>[:i,j,k]
use crate::cases::{CaseOut, Io};
use crate::fl::Fl;
use crate::shapes::*;
use nalgebra::{Const, DVector, Dyn, OMatrix, OVector, SVector};
use num_dual::*;

fn monomials(n: usize, deg: usize) -> Vec<Vec<usize>> {
    // all exponent vectors of length n with total degree <= deg
    let mut out = vec![];
    let mut cur = vec![0usize; n];
    fn rec(i: usize, left: usize, cur: &mut Vec<usize>, out: &mut Vec<Vec<usize>>) {
        if i == cur.len() {
            out.push(cur.clone());
            return;
        }
        for e in 0..=left {
            cur[i] = e;
            rec(i + 1, left - e, cur, out);
        }
        cur[i] = 0;
    }
    rec(0, deg, &mut cur, &mut out);
    out
}

/// generic cubic: sum_alpha c_alpha * prod x_i^alpha_i; coefficient names `<pfx>_<e0>_<e1>...`
pub fn cubic<F: Fl, D: DualNum<F>>(io: &mut Io<F>, pfx: &str, xs: &[D]) -> D {
    if pfx.starts_with('q') {
        // generic rational closure: quadratic numerator over 1 + (affine form)^2
        let mut num = D::from(F::lit(0.0));
        for m in monomials(xs.len(), 2) {
            let name = format!(
                "{pfx}n_{}",
                m.iter().map(|e| e.to_string()).collect::<Vec<_>>().join("_")
            );
            let c = io.scalar(&name);
            let mut term = D::from(c);
            for (x, &e) in xs.iter().zip(m.iter()) {
                for _ in 0..e {
                    term = term * x.clone();
                }
            }
            num = num + term;
        }
        let mut lin = D::from(io.scalar(&format!("{pfx}l_c")));
        for (i, x) in xs.iter().enumerate() {
            let c = io.scalar(&format!("{pfx}l_{i}"));
            lin = lin + x.clone() * c;
        }
        let den = lin.clone() * lin + F::lit(1.0);
        return num / den;
    }
    let mut acc = D::from(F::lit(0.0));
    for m in monomials(xs.len(), 3) {
        let name = format!(
            "{pfx}_{}",
            m.iter().map(|e| e.to_string()).collect::<Vec<_>>().join("_")
        );
        let c = io.scalar(&name);
        let mut term = D::from(c);
        for (x, &e) in xs.iter().zip(m.iter()) {
            for _ in 0..e {
                term = term * x.clone();
            }
        }
        acc = acc + term;
    }
    acc
}

fn scalars_out<F: Fl>(io: &mut Io<F>, name: &str, v: &[F]) {
    io.out
        .outputs
        .push((name.to_string(), v.iter().map(|f| Some(f.val())).collect()));
}

#[derive(Debug)]
pub struct Token(pub u32);

macro_rules! scalar_driver {
    ($fname:ident, $drv:ident, $try:ident, $Sh:ty, [$($o:ident),*]) => {
        fn $fname<F: Fl>(mode: &str, pres: u64) -> CaseOut {
            let mut io = Io::<F>::new(pres);
            let x = io.scalar("x");
            match mode {
                "probe" => {
                    let r = $drv(
                        |d| {
                            io.output::<$Sh>("arg0", &d);
                            io.input::<$Sh>("ret")
                        },
                        x,
                    );
                    let ($($o),*) = r;
                    scalars_out(&mut io, "out", &[$($o),*]);
                    // fallible variant: identical values
                    let r2 = $try(
                        |d| {
                            io.output::<$Sh>("try_arg0", &d);
                            Ok::<_, Token>(io.input::<$Sh>("ret"))
                        },
                        x,
                    )
                    .unwrap();
                    let ($($o),*) = r2;
                    scalars_out(&mut io, "try_out", &[$($o),*]);
                }
                "cubic" | "quot" => {
                    let r = $drv(|d| cubic(&mut io, if mode == "quot" { "q" } else { "c" }, &[d]), x);
                    let ($($o),*) = r;
                    scalars_out(&mut io, "out", &[$($o),*]);
                }
                "err" => {
                    let r = $try(|_d| Err::<<$Sh as Shape<F>>::N, _>(Token(77)), x);
                    io.flag("err_token_returned", matches!(r, Err(Token(77))));
                }
                _ => panic!("mode"),
            }
            io.out
        }
    };
}

scalar_driver!(drv_first, first_derivative, try_first_derivative, DualS<Real>, [a, b]);
scalar_driver!(drv_second, second_derivative, try_second_derivative, Dual2S<Real>, [a, b, c]);
scalar_driver!(drv_third, third_derivative, try_third_derivative, Dual3S<Real>, [a, b, c, d]);

fn drv_spd<F: Fl>(mode: &str, pres: u64) -> CaseOut {
    type Sh = HyperS<Real>;
    let mut io = Io::<F>::new(pres);
    let x = io.scalar("x");
    let y = io.scalar("y");
    match mode {
        "probe" => {
            let (a, b, c, d) = second_partial_derivative(
                |p, q| {
                    io.output::<Sh>("arg0", &p);
                    io.output::<Sh>("arg1", &q);
                    io.input::<Sh>("ret")
                },
                x,
                y,
            );
            scalars_out(&mut io, "out", &[a, b, c, d]);
            let (a, b, c, d) = try_second_partial_derivative(
                |_p, _q| Ok::<_, Token>(io.input::<Sh>("ret")),
                x,
                y,
            )
            .unwrap();
            scalars_out(&mut io, "try_out", &[a, b, c, d]);
        }
        "cubic" | "quot" => {
            let (a, b, c, d) = second_partial_derivative(|p, q| cubic(&mut io, if mode == "quot" { "q" } else { "c" }, &[p, q]), x, y);
            scalars_out(&mut io, "out", &[a, b, c, d]);
        }
        "err" => {
            let r = try_second_partial_derivative(
                |_p, _q| Err::<<Sh as Shape<F>>::N, _>(Token(77)),
                x,
                y,
            );
            io.flag("err_token_returned", matches!(r, Err(Token(77))));
        }
        _ => panic!("mode"),
    }
    io.out
}

fn drv_tpd<F: Fl>(mode: &str, pres: u64) -> CaseOut {
    type Sh = HHS<Real>;
    let mut io = Io::<F>::new(pres);
    let x = io.scalar("x");
    let y = io.scalar("y");
    let z = io.scalar("z");
    match mode {
        "probe" => {
            let r = third_partial_derivative(
                |p, q, s| {
                    io.output::<Sh>("arg0", &p);
                    io.output::<Sh>("arg1", &q);
                    io.output::<Sh>("arg2", &s);
                    io.input::<Sh>("ret")
                },
                x,
                y,
                z,
            );
            scalars_out(&mut io, "out", &[r.0, r.1, r.2, r.3, r.4, r.5, r.6, r.7]);
            let r = try_third_partial_derivative(
                |_p, _q, _s| Ok::<_, Token>(io.input::<Sh>("ret")),
                x,
                y,
                z,
            )
            .unwrap();
            scalars_out(&mut io, "try_out", &[r.0, r.1, r.2, r.3, r.4, r.5, r.6, r.7]);
        }
        "cubic" | "quot" => {
            let r = third_partial_derivative(|p, q, s| cubic(&mut io, if mode == "quot" { "q" } else { "c" }, &[p, q, s]), x, y, z);
            scalars_out(&mut io, "out", &[r.0, r.1, r.2, r.3, r.4, r.5, r.6, r.7]);
        }
        "err" => {
            let r = try_third_partial_derivative(
                |_p, _q, _s| Err::<<Sh as Shape<F>>::N, _>(Token(77)),
                x,
                y,
                z,
            );
            io.flag("err_token_returned", matches!(r, Err(Token(77))));
        }
        _ => panic!("mode"),
    }
    io.out
}

fn drv_tpdv<F: Fl>(mode: &str, pres: u64, n: usize, ijk: (usize, usize, usize)) -> CaseOut {
    type Sh = HHS<Real>;
    let mut io = Io::<F>::new(pres);
    let xs: Vec<F> = (0..n).map(|i| io.scalar(&format!("x{i}"))).collect();
    let (i, j, k) = ijk;
    match mode {
        "probe" => {
            let r = third_partial_derivative_vec(
                |d: &[HyperHyperDual<F, F>]| {
                    for (q, di) in d.iter().enumerate() {
                        io.output::<Sh>(&format!("arg{q}"), di);
                    }
                    io.flag("arg_len", d.len() == n);
                    io.input::<Sh>("ret")
                },
                &xs,
                i,
                j,
                k,
            );
            scalars_out(&mut io, "out", &[r.0, r.1, r.2, r.3, r.4, r.5, r.6, r.7]);
            let r = try_third_partial_derivative_vec(
                |_d: &[HyperHyperDual<F, F>]| Ok::<_, Token>(io.input::<Sh>("ret")),
                &xs,
                i,
                j,
                k,
            )
            .unwrap();
            scalars_out(&mut io, "try_out", &[r.0, r.1, r.2, r.3, r.4, r.5, r.6, r.7]);
        }
        "cubic" | "quot" => {
            let r = third_partial_derivative_vec(
                |d: &[HyperHyperDual<F, F>]| cubic(&mut io, if mode == "quot" { "q" } else { "c" }, d),
                &xs,
                i,
                j,
                k,
            );
            scalars_out(&mut io, "out", &[r.0, r.1, r.2, r.3, r.4, r.5, r.6, r.7]);
        }
        "err" => {
            let r = try_third_partial_derivative_vec(
                |_d: &[HyperHyperDual<F, F>]| Err::<<Sh as Shape<F>>::N, _>(Token(77)),
                &xs,
                i,
                j,
                k,
            );
            io.flag("err_token_returned", matches!(r, Err(Token(77))));
        }
        _ => panic!("mode"),
    }
    io.out
}

// ---------------------------------------------------------------------------------------------
// vector drivers: one instantiation per (dimension, storage)
// ---------------------------------------------------------------------------------------------
macro_rules! vec_drivers {
    ($grad:ident, $hess:ident, $dm:ty, $D:ty, $n:expr, $mkvec:expr) => {
        fn $grad<F: Fl>(mode: &str, pres: u64) -> CaseOut {
            type Sh = DualVecS<Real, $dm>;
            let mut io = Io::<F>::new(pres);
            let xs: Vec<F> = (0..$n).map(|i| io.scalar(&format!("x{i}"))).collect();
            let mk = $mkvec;
            let x: OVector<F, $D> = mk(&xs);
            match mode {
                "probe" => {
                    let (f, g) = gradient(
                        |d: OVector<DualVec<F, F, $D>, $D>| {
                            for (q, di) in d.iter().enumerate() {
                                io.output::<Sh>(&format!("arg{q}"), di);
                            }
                            io.flag("arg_len", d.len() == $n);
                            io.input::<Sh>("ret")
                        },
                        x.clone(),
                    );
                    scalars_out(&mut io, "f", &[f]);
                    io.flag("g_len", g.len() == $n);
                    scalars_out(&mut io, "g", &(0..$n).map(|i| g[i]).collect::<Vec<_>>());
                    let (f, g) = try_gradient(
                        |_d: OVector<DualVec<F, F, $D>, $D>| Ok::<_, Token>(io.input::<Sh>("ret")),
                        x,
                    )
                    .unwrap();
                    scalars_out(&mut io, "try_f", &[f]);
                    scalars_out(&mut io, "try_g", &(0..$n).map(|i| g[i]).collect::<Vec<_>>());
                }
                "cubic" | "quot" => {
                    let (f, g) = gradient(
                        |d: OVector<DualVec<F, F, $D>, $D>| cubic(&mut io, if mode == "quot" { "q" } else { "c" }, d.as_slice()),
                        x,
                    );
                    scalars_out(&mut io, "f", &[f]);
                    scalars_out(&mut io, "g", &(0..$n).map(|i| g[i]).collect::<Vec<_>>());
                }
                "err" => {
                    let r = try_gradient(
                        |_d: OVector<DualVec<F, F, $D>, $D>| Err::<<Sh as Shape<F>>::N, _>(Token(77)),
                        x,
                    );
                    io.flag("err_token_returned", matches!(r, Err(Token(77))));
                }
                _ => panic!("mode"),
            }
            io.out
        }

        fn $hess<F: Fl>(mode: &str, pres: u64) -> CaseOut {
            type Sh = Dual2VecS<Real, $dm>;
            let mut io = Io::<F>::new(pres);
            let xs: Vec<F> = (0..$n).map(|i| io.scalar(&format!("x{i}"))).collect();
            let mk = $mkvec;
            let x: OVector<F, $D> = mk(&xs);
            let flat = |h: &OMatrix<F, $D, $D>| -> Vec<F> {
                let mut v = vec![];
                for i in 0..$n {
                    for j in 0..$n {
                        v.push(h[(i, j)]);
                    }
                }
                v
            };
            match mode {
                "probe" => {
                    let (f, g, h) = hessian(
                        |d: OVector<Dual2Vec<F, F, $D>, $D>| {
                            for (q, di) in d.iter().enumerate() {
                                io.output::<Sh>(&format!("arg{q}"), di);
                            }
                            io.input::<Sh>("ret")
                        },
                        x.clone(),
                    );
                    scalars_out(&mut io, "f", &[f]);
                    io.flag("g_shape", g.shape() == ($n, 1));
                    io.flag("h_shape", h.shape() == ($n, $n));
                    scalars_out(&mut io, "g", &(0..$n).map(|i| g[i]).collect::<Vec<_>>());
                    scalars_out(&mut io, "H", &flat(&h));
                    let (f, g, h) = try_hessian(
                        |_d: OVector<Dual2Vec<F, F, $D>, $D>| Ok::<_, Token>(io.input::<Sh>("ret")),
                        x,
                    )
                    .unwrap();
                    scalars_out(&mut io, "try_f", &[f]);
                    scalars_out(&mut io, "try_g", &(0..$n).map(|i| g[i]).collect::<Vec<_>>());
                    scalars_out(&mut io, "try_H", &flat(&h));
                }
                "cubic" | "quot" => {
                    let (f, g, h) = hessian(
                        |d: OVector<Dual2Vec<F, F, $D>, $D>| cubic(&mut io, if mode == "quot" { "q" } else { "c" }, d.as_slice()),
                        x,
                    );
                    scalars_out(&mut io, "f", &[f]);
                    scalars_out(&mut io, "g", &(0..$n).map(|i| g[i]).collect::<Vec<_>>());
                    scalars_out(&mut io, "H", &flat(&h));
                }
                "err" => {
                    let r = try_hessian(
                        |_d: OVector<Dual2Vec<F, F, $D>, $D>| Err::<<Sh as Shape<F>>::N, _>(Token(77)),
                        x,
                    );
                    io.flag("err_token_returned", matches!(r, Err(Token(77))));
                }
                _ => panic!("mode"),
            }
            io.out
        }
    };
}

vec_drivers!(grad_s1, hess_s1, C<1>, Const<1>, 1, |v: &[F]| SVector::<F, 1>::from_column_slice(v));
vec_drivers!(grad_s2, hess_s2, C<2>, Const<2>, 2, |v: &[F]| SVector::<F, 2>::from_column_slice(v));
vec_drivers!(grad_s3, hess_s3, C<3>, Const<3>, 3, |v: &[F]| SVector::<F, 3>::from_column_slice(v));
vec_drivers!(grad_s4, hess_s4, C<4>, Const<4>, 4, |v: &[F]| SVector::<F, 4>::from_column_slice(v));
vec_drivers!(grad_d1, hess_d1, Dy<1>, Dyn, 1, |v: &[F]| DVector::<F>::from_column_slice(v));
vec_drivers!(grad_d2, hess_d2, Dy<2>, Dyn, 2, |v: &[F]| DVector::<F>::from_column_slice(v));
vec_drivers!(grad_d3, hess_d3, Dy<3>, Dyn, 3, |v: &[F]| DVector::<F>::from_column_slice(v));
vec_drivers!(grad_d4, hess_d4, Dy<4>, Dyn, 4, |v: &[F]| DVector::<F>::from_column_slice(v));

macro_rules! jac_driver {
    ($name:ident, $dn:ty, $N:ty, $M:ty, $n:expr, $m:expr, $mkvec:expr, $mkout:expr) => {
        fn $name<F: Fl>(mode: &str, pres: u64) -> CaseOut {
            type Sh = DualVecS<Real, $dn>;
            let mut io = Io::<F>::new(pres);
            let xs: Vec<F> = (0..$n).map(|i| io.scalar(&format!("x{i}"))).collect();
            let mk = $mkvec;
            let x: OVector<F, $N> = mk(&xs);
            let flat = |j: &OMatrix<F, $M, $N>| -> Vec<F> {
                let mut v = vec![];
                for a in 0..$m {
                    for b in 0..$n {
                        v.push(j[(a, b)]);
                    }
                }
                v
            };
            let mkout = $mkout;
            match mode {
                "probe" => {
                    let (f, jac) = jacobian(
                        |d: OVector<DualVec<F, F, $N>, $N>| {
                            for (q, di) in d.iter().enumerate() {
                                io.output::<Sh>(&format!("arg{q}"), di);
                            }
                            let rets: Vec<DualVec<F, F, $N>> =
                                (0..$m).map(|q| io.input::<Sh>(&format!("ret{q}"))).collect();
                            let o: OVector<DualVec<F, F, $N>, $M> = mkout(rets);
                            o
                        },
                        x.clone(),
                    );
                    io.flag("f_len", f.len() == $m);
                    io.flag("jac_shape", jac.shape() == ($m, $n));
                    scalars_out(&mut io, "f", &(0..$m).map(|i| f[i]).collect::<Vec<_>>());
                    scalars_out(&mut io, "J", &flat(&jac));
                    let (f, jac) = try_jacobian(
                        |_d: OVector<DualVec<F, F, $N>, $N>| {
                            let rets: Vec<DualVec<F, F, $N>> =
                                (0..$m).map(|q| io.input::<Sh>(&format!("ret{q}"))).collect();
                            let o: OVector<DualVec<F, F, $N>, $M> = mkout(rets);
                            Ok::<_, Token>(o)
                        },
                        x,
                    )
                    .unwrap();
                    scalars_out(&mut io, "try_f", &(0..$m).map(|i| f[i]).collect::<Vec<_>>());
                    scalars_out(&mut io, "try_J", &flat(&jac));
                }
                "cubic" | "quot" => {
                    let (f, jac) = jacobian(
                        |d: OVector<DualVec<F, F, $N>, $N>| {
                            let rets: Vec<DualVec<F, F, $N>> = (0..$m)
                                .map(|q| cubic(&mut io, &format!("{}{q}", if mode == "quot" { "q" } else { "c" }), d.as_slice()))
                                .collect();
                            let o: OVector<DualVec<F, F, $N>, $M> = mkout(rets);
                            o
                        },
                        x,
                    );
                    scalars_out(&mut io, "f", &(0..$m).map(|i| f[i]).collect::<Vec<_>>());
                    scalars_out(&mut io, "J", &flat(&jac));
                }
                "err" => {
                    let r = try_jacobian(
                        |_d: OVector<DualVec<F, F, $N>, $N>| {
                            Err::<OVector<DualVec<F, F, $N>, $M>, _>(Token(77))
                        },
                        x,
                    );
                    io.flag("err_token_returned", matches!(r, Err(Token(77))));
                }
                _ => panic!("mode"),
            }
            io.out
        }
    };
}

jac_driver!(jac_s1x1, C<1>, Const<1>, Const<1>, 1, 1,
    |v: &[F]| SVector::<F, 1>::from_column_slice(v),
    |r: Vec<DualVec<F, F, Const<1>>>| SVector::<DualVec<F, F, Const<1>>, 1>::from_iterator(r));
jac_driver!(jac_s2x3, C<2>, Const<2>, Const<3>, 2, 3,
    |v: &[F]| SVector::<F, 2>::from_column_slice(v),
    |r: Vec<DualVec<F, F, Const<2>>>| SVector::<DualVec<F, F, Const<2>>, 3>::from_iterator(r));
jac_driver!(jac_s3x2, C<3>, Const<3>, Const<2>, 3, 2,
    |v: &[F]| SVector::<F, 3>::from_column_slice(v),
    |r: Vec<DualVec<F, F, Const<3>>>| SVector::<DualVec<F, F, Const<3>>, 2>::from_iterator(r));
jac_driver!(jac_s2x2, C<2>, Const<2>, Const<2>, 2, 2,
    |v: &[F]| SVector::<F, 2>::from_column_slice(v),
    |r: Vec<DualVec<F, F, Const<2>>>| SVector::<DualVec<F, F, Const<2>>, 2>::from_iterator(r));
jac_driver!(jac_s3x1, C<3>, Const<3>, Const<1>, 3, 1,
    |v: &[F]| SVector::<F, 3>::from_column_slice(v),
    |r: Vec<DualVec<F, F, Const<3>>>| SVector::<DualVec<F, F, Const<3>>, 1>::from_iterator(r));
jac_driver!(jac_d2x3, Dy<2>, Dyn, Dyn, 2, 3,
    |v: &[F]| DVector::<F>::from_column_slice(v),
    |r: Vec<DualVec<F, F, Dyn>>| DVector::<DualVec<F, F, Dyn>>::from_vec(r));
jac_driver!(jac_d3x2, Dy<3>, Dyn, Dyn, 3, 2,
    |v: &[F]| DVector::<F>::from_column_slice(v),
    |r: Vec<DualVec<F, F, Dyn>>| DVector::<DualVec<F, F, Dyn>>::from_vec(r));
jac_driver!(jac_d1x2, Dy<1>, Dyn, Dyn, 1, 2,
    |v: &[F]| DVector::<F>::from_column_slice(v),
    |r: Vec<DualVec<F, F, Dyn>>| DVector::<DualVec<F, F, Dyn>>::from_vec(r));

macro_rules! ph_driver {
    ($name:ident, $mm:ty, $nm:ty, $M:ty, $N:ty, $m:expr, $n:expr, $mkx:expr, $mky:expr) => {
        fn $name<F: Fl>(mode: &str, pres: u64) -> CaseOut {
            type Sh = HyperVecS<Real, $mm, $nm>;
            let mut io = Io::<F>::new(pres);
            let xs: Vec<F> = (0..$m).map(|i| io.scalar(&format!("x{i}"))).collect();
            let ys: Vec<F> = (0..$n).map(|i| io.scalar(&format!("y{i}"))).collect();
            let mkx = $mkx;
            let mky = $mky;
            let x: OVector<F, $M> = mkx(&xs);
            let y: OVector<F, $N> = mky(&ys);
            let flat = |h: &OMatrix<F, $M, $N>| -> Vec<F> {
                let mut v = vec![];
                for a in 0..$m {
                    for b in 0..$n {
                        v.push(h[(a, b)]);
                    }
                }
                v
            };
            match mode {
                "probe" => {
                    let (f, fx, fy, fxy) = partial_hessian(
                        |p: OVector<HyperDualVec<F, F, $M, $N>, $M>,
                         q: OVector<HyperDualVec<F, F, $M, $N>, $N>| {
                            for (i, di) in p.iter().enumerate() {
                                io.output::<Sh>(&format!("argx{i}"), di);
                            }
                            for (i, di) in q.iter().enumerate() {
                                io.output::<Sh>(&format!("argy{i}"), di);
                            }
                            io.input::<Sh>("ret")
                        },
                        x.clone(),
                        y.clone(),
                    );
                    scalars_out(&mut io, "f", &[f]);
                    io.flag("shapes", fx.len() == $m && fy.len() == $n && fxy.shape() == ($m, $n));
                    scalars_out(&mut io, "fx", &(0..$m).map(|i| fx[i]).collect::<Vec<_>>());
                    scalars_out(&mut io, "fy", &(0..$n).map(|i| fy[i]).collect::<Vec<_>>());
                    scalars_out(&mut io, "fxy", &flat(&fxy));
                    let (f, fx, fy, fxy) = try_partial_hessian(
                        |_p: OVector<HyperDualVec<F, F, $M, $N>, $M>,
                         _q: OVector<HyperDualVec<F, F, $M, $N>, $N>| {
                            Ok::<_, Token>(io.input::<Sh>("ret"))
                        },
                        x,
                        y,
                    )
                    .unwrap();
                    scalars_out(&mut io, "try_f", &[f]);
                    scalars_out(&mut io, "try_fx", &(0..$m).map(|i| fx[i]).collect::<Vec<_>>());
                    scalars_out(&mut io, "try_fy", &(0..$n).map(|i| fy[i]).collect::<Vec<_>>());
                    scalars_out(&mut io, "try_fxy", &flat(&fxy));
                }
                "cubic" | "quot" => {
                    let (f, fx, fy, fxy) = partial_hessian(
                        |p: OVector<HyperDualVec<F, F, $M, $N>, $M>,
                         q: OVector<HyperDualVec<F, F, $M, $N>, $N>| {
                            let mut all: Vec<HyperDualVec<F, F, $M, $N>> = p.iter().cloned().collect();
                            all.extend(q.iter().cloned());
                            cubic(&mut io, if mode == "quot" { "q" } else { "c" }, &all)
                        },
                        x,
                        y,
                    );
                    scalars_out(&mut io, "f", &[f]);
                    scalars_out(&mut io, "fx", &(0..$m).map(|i| fx[i]).collect::<Vec<_>>());
                    scalars_out(&mut io, "fy", &(0..$n).map(|i| fy[i]).collect::<Vec<_>>());
                    scalars_out(&mut io, "fxy", &flat(&fxy));
                }
                "err" => {
                    let r = try_partial_hessian(
                        |_p: OVector<HyperDualVec<F, F, $M, $N>, $M>,
                         _q: OVector<HyperDualVec<F, F, $M, $N>, $N>| {
                            Err::<<Sh as Shape<F>>::N, _>(Token(77))
                        },
                        x,
                        y,
                    );
                    io.flag("err_token_returned", matches!(r, Err(Token(77))));
                }
                _ => panic!("mode"),
            }
            io.out
        }
    };
}

ph_driver!(ph_s1x1, C<1>, C<1>, Const<1>, Const<1>, 1, 1,
    |v: &[F]| SVector::<F, 1>::from_column_slice(v), |v: &[F]| SVector::<F, 1>::from_column_slice(v));
ph_driver!(ph_s2x1, C<2>, C<1>, Const<2>, Const<1>, 2, 1,
    |v: &[F]| SVector::<F, 2>::from_column_slice(v), |v: &[F]| SVector::<F, 1>::from_column_slice(v));
ph_driver!(ph_s1x2, C<1>, C<2>, Const<1>, Const<2>, 1, 2,
    |v: &[F]| SVector::<F, 1>::from_column_slice(v), |v: &[F]| SVector::<F, 2>::from_column_slice(v));
ph_driver!(ph_s2x2, C<2>, C<2>, Const<2>, Const<2>, 2, 2,
    |v: &[F]| SVector::<F, 2>::from_column_slice(v), |v: &[F]| SVector::<F, 2>::from_column_slice(v));
ph_driver!(ph_s2x3, C<2>, C<3>, Const<2>, Const<3>, 2, 3,
    |v: &[F]| SVector::<F, 2>::from_column_slice(v), |v: &[F]| SVector::<F, 3>::from_column_slice(v));
ph_driver!(ph_d2x2, Dy<2>, Dy<2>, Dyn, Dyn, 2, 2,
    |v: &[F]| DVector::<F>::from_column_slice(v), |v: &[F]| DVector::<F>::from_column_slice(v));
ph_driver!(ph_d2x3, Dy<2>, Dy<3>, Dyn, Dyn, 2, 3,
    |v: &[F]| DVector::<F>::from_column_slice(v), |v: &[F]| DVector::<F>::from_column_slice(v));

pub fn run_driver<F: Fl>(kind: &str, pres: u64) -> CaseOut {
    let p: Vec<&str> = kind.split(':').collect();
    let (drv, dims, mode) = (p[1], p[2], p[3]);
    match (drv, dims) {
        ("first", _) => drv_first::<F>(mode, pres),
        ("second", _) => drv_second::<F>(mode, pres),
        ("third", _) => drv_third::<F>(mode, pres),
        ("spd", _) => drv_spd::<F>(mode, pres),
        ("tpd", _) => drv_tpd::<F>(mode, pres),
        ("tpdv", n) => {
            let ijk: Vec<usize> = p[4].split(',').map(|s| s.parse().unwrap()).collect();
            drv_tpdv::<F>(mode, pres, n.parse().unwrap(), (ijk[0], ijk[1], ijk[2]))
        }
        ("gradient", "s1") => grad_s1::<F>(mode, pres),
        ("gradient", "s2") => grad_s2::<F>(mode, pres),
        ("gradient", "s3") => grad_s3::<F>(mode, pres),
        ("gradient", "s4") => grad_s4::<F>(mode, pres),
        ("gradient", "d1") => grad_d1::<F>(mode, pres),
        ("gradient", "d2") => grad_d2::<F>(mode, pres),
        ("gradient", "d3") => grad_d3::<F>(mode, pres),
        ("gradient", "d4") => grad_d4::<F>(mode, pres),
        ("hessian", "s1") => hess_s1::<F>(mode, pres),
        ("hessian", "s2") => hess_s2::<F>(mode, pres),
        ("hessian", "s3") => hess_s3::<F>(mode, pres),
        ("hessian", "s4") => hess_s4::<F>(mode, pres),
        ("hessian", "d1") => hess_d1::<F>(mode, pres),
        ("hessian", "d2") => hess_d2::<F>(mode, pres),
        ("hessian", "d3") => hess_d3::<F>(mode, pres),
        ("hessian", "d4") => hess_d4::<F>(mode, pres),
        ("jacobian", "s1x1") => jac_s1x1::<F>(mode, pres),
        ("jacobian", "s2x3") => jac_s2x3::<F>(mode, pres),
        ("jacobian", "s3x2") => jac_s3x2::<F>(mode, pres),
        ("jacobian", "s2x2") => jac_s2x2::<F>(mode, pres),
        ("jacobian", "s3x1") => jac_s3x1::<F>(mode, pres),
        ("jacobian", "d2x3") => jac_d2x3::<F>(mode, pres),
        ("jacobian", "d3x2") => jac_d3x2::<F>(mode, pres),
        ("jacobian", "d1x2") => jac_d1x2::<F>(mode, pres),
        ("phess", "s1x1") => ph_s1x1::<F>(mode, pres),
        ("phess", "s2x1") => ph_s2x1::<F>(mode, pres),
        ("phess", "s1x2") => ph_s1x2::<F>(mode, pres),
        ("phess", "s2x2") => ph_s2x2::<F>(mode, pres),
        ("phess", "s2x3") => ph_s2x3::<F>(mode, pres),
        ("phess", "d2x2") => ph_d2x2::<F>(mode, pres),
        ("phess", "d2x3") => ph_d2x3::<F>(mode, pres),
        other => panic!("unknown driver {:?}", other),
    }
}
