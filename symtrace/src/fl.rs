//! The float abstraction over which every case is written: `S` (tracing), `f64`/`f32` (native
//! replay and translator validation).
use crate::sym::S;
use num_dual::{DualNum, DualNumFloat};
use std::cell::RefCell;
use std::collections::HashMap;

thread_local! {
    pub static ASSIGN: RefCell<HashMap<String, f64>> = RefCell::new(HashMap::new());
    pub static INPUT_LOG: RefCell<Vec<String>> = RefCell::new(Vec::new());
}

pub fn set_assignment(m: HashMap<String, f64>) {
    ASSIGN.with(|a| *a.borrow_mut() = m);
}

fn lookup(name: &str) -> f64 {
    INPUT_LOG.with(|l| l.borrow_mut().push(name.to_string()));
    ASSIGN.with(|a| {
        *a.borrow()
            .get(name)
            .unwrap_or_else(|| panic!("no value for input {name}"))
    })
}

#[derive(Clone, Debug, PartialEq)]
pub enum Val {
    Node(u32),
    F(f64),
}

pub trait Fl: DualNumFloat + DualNum<Self, Inner = Self> + nalgebra::Scalar + Copy {
    const KIND: &'static str;
    fn input(name: &str) -> Self;
    fn lit(v: f64) -> Self;
    fn val(&self) -> Val;
}

impl Fl for S {
    const KIND: &'static str = "S";
    fn input(name: &str) -> S {
        INPUT_LOG.with(|l| l.borrow_mut().push(name.to_string()));
        S::var(name)
    }
    fn lit(v: f64) -> S {
        S::c(v)
    }
    fn val(&self) -> Val {
        Val::Node(self.id())
    }
}
impl Fl for f64 {
    const KIND: &'static str = "f64";
    fn input(name: &str) -> f64 {
        lookup(name)
    }
    fn lit(v: f64) -> f64 {
        v
    }
    fn val(&self) -> Val {
        Val::F(*self)
    }
}
impl Fl for f32 {
    const KIND: &'static str = "f32";
    fn input(name: &str) -> f32 {
        lookup(name) as f32
    }
    fn lit(v: f64) -> f32 {
        v as f32
    }
    fn val(&self) -> Val {
        Val::F(*self as f64)
    }
}
