//! Minimal JSON writer (no dependencies).
pub enum J {
    Null,
    Bool(bool),
    Num(f64),
    Str(String),
    Arr(Vec<J>),
    Obj(Vec<(String, J)>),
}

impl J {
    pub fn s(s: &str) -> J {
        J::Str(s.to_string())
    }
    pub fn obj(v: Vec<(&str, J)>) -> J {
        J::Obj(v.into_iter().map(|(k, v)| (k.to_string(), v)).collect())
    }
    fn esc(s: &str, out: &mut String) {
        out.push('"');
        for c in s.chars() {
            match c {
                '"' => out.push_str("\\\""),
                '\\' => out.push_str("\\\\"),
                '\n' => out.push_str("\\n"),
                '\t' => out.push_str("\\t"),
                '\r' => out.push_str("\\r"),
                c if (c as u32) < 0x20 => out.push_str(&format!("\\u{:04x}", c as u32)),
                c => out.push(c),
            }
        }
        out.push('"');
    }
    fn write(&self, out: &mut String) {
        match self {
            J::Null => out.push_str("null"),
            J::Bool(b) => out.push_str(if *b { "true" } else { "false" }),
            J::Num(n) => {
                if n.fract() == 0.0 && n.abs() < 1e15 {
                    out.push_str(&format!("{}", *n as i64))
                } else {
                    out.push_str(&format!("{:?}", n))
                }
            }
            J::Str(s) => J::esc(s, out),
            J::Arr(v) => {
                out.push('[');
                for (i, x) in v.iter().enumerate() {
                    if i > 0 {
                        out.push(',');
                    }
                    x.write(out);
                }
                out.push(']');
            }
            J::Obj(v) => {
                out.push('{');
                for (i, (k, x)) in v.iter().enumerate() {
                    if i > 0 {
                        out.push(',');
                    }
                    J::esc(k, out);
                    out.push(':');
                    x.write(out);
                }
                out.push('}');
            }
        }
    }
    #[allow(clippy::inherent_to_string)]
    pub fn to_string(&self) -> String {
        let mut s = String::new();
        self.write(&mut s);
        s
    }
}
