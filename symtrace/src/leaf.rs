//! `impl DualNum<S> for S`, produced by expanding the repository's own
//! `impl_dual_num_float!` macro text (copied verbatim from /repo/src/lib.rs by build.rs).
use crate::sym::S;
use num_dual::DualNum;

include!(concat!(env!("OUT_DIR"), "/leaf_macro.rs"));

impl_dual_num_float!(S);
