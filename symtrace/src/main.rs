//! symtrace: symbolic execution of num-dual's generic code by instantiation at the symbolic
//! scalar `S`. Protocol: `symtrace trace <out.json>` reads case specs from stdin, one per line:
//!   <shape>|<kind>|<presence bits>
//! and writes one JSON document with, per case, every control-flow path (decisions, path
//! conditions, result leaves) and the expression DAG.
//! `symtrace run <f64|f32>` reads `<shape>|<kind>|<pres>|name=value,...` lines and prints the
//! native results (replay). `symtrace shapes` lists the available shapes.
mod cases;
mod drivers;
mod fl;
mod json;
mod leaf;
mod reg;
mod shapes;
mod sym;

use cases::CaseOut;
use fl::Val;
use json::J;
use std::collections::HashMap;
use std::io::{BufRead, Write};
use std::panic::{catch_unwind, AssertUnwindSafe};
use sym::*;

pub struct Spec {
    pub shape: String,
    pub kind: String,
    pub pres: u64,
}

fn parse_spec(line: &str) -> (Spec, Vec<String>) {
    let f: Vec<&str> = line.trim().split('|').collect();
    (
        Spec {
            shape: f[0].to_string(),
            kind: f[1].to_string(),
            pres: f[2].parse().unwrap(),
        },
        f[3..].iter().map(|s| s.to_string()).collect(),
    )
}

struct Path {
    decisions: Vec<bool>,
    conds: Vec<Cond>,
    result: Result<CaseOut, String>,
}

fn run_path(spec: &Spec, script: Vec<bool>) -> Path {
    start_path(script);
    fl::INPUT_LOG.with(|l| l.borrow_mut().clear());
    let r = catch_unwind(AssertUnwindSafe(|| reg::dispatch_s(spec)));
    let (decisions, conds) = take_path();
    let result = match r {
        Ok(o) => Ok(o),
        Err(e) => Err(if e.downcast_ref::<ForkLimit>().is_some() {
            "fork_limit".to_string()
        } else if let Some(s) = e.downcast_ref::<String>() {
            s.clone()
        } else if let Some(s) = e.downcast_ref::<&str>() {
            s.to_string()
        } else {
            "panic".to_string()
        }),
    };
    Path {
        decisions,
        conds,
        result,
    }
}

/// Seeded random sampling of control-flow paths (for cases whose decision tree is too large to
/// enumerate): every sample answers each fork from a pseudo-random bit string.
fn sample_paths(spec: &Spec, n: usize, seed: u64) -> (Vec<Path>, bool) {
    let mut paths: Vec<Path> = vec![];
    for i in 0..n {
        let mut script = Vec::with_capacity(64);
        let mut h = hash64(&spec.kind, seed.wrapping_mul(1000003).wrapping_add(i as u64));
        for k in 0..64 {
            if k % 60 == 59 {
                h = hash64("more", h);
            }
            script.push((h >> (k % 60)) & 1 == 1);
        }
        let p = run_path(spec, script);
        if !paths.iter().any(|q| q.decisions == p.decisions) {
            paths.push(p);
        }
    }
    (paths, true)
}

fn enumerate(spec: &Spec, max_paths: usize) -> (Vec<Path>, bool) {
    if let Ok(n) = std::env::var("SYMTRACE_RANDOM_PATHS") {
        if let Ok(n) = n.parse::<usize>() {
            let seed: u64 = std::env::var("VERIF_SEED").ok().and_then(|s| s.parse().ok()).unwrap_or(0);
            return sample_paths(spec, n, seed);
        }
    }
    let mut stack: Vec<Vec<bool>> = vec![vec![]];
    let mut paths = vec![];
    let mut truncated = false;
    while let Some(script) = stack.pop() {
        if paths.len() >= max_paths {
            truncated = true;
            break;
        }
        let plen = script.len();
        let p = run_path(spec, script);
        for i in (plen..p.decisions.len()).rev() {
            let mut s = p.decisions[..i].to_vec();
            s.push(!p.decisions[i]);
            stack.push(s);
        }
        paths.push(p);
    }
    (paths, truncated)
}

fn val_j(v: &Option<Val>) -> J {
    match v {
        None => J::Null,
        Some(Val::Node(i)) => J::Num(*i as f64),
        Some(Val::F(f)) => J::Str(format!("{:?}", f)),
    }
}

fn out_j(o: &CaseOut) -> J {
    let leaves = |v: &Vec<Option<Val>>| J::Arr(v.iter().map(val_j).collect());
    J::obj(vec![
        (
            "inputs",
            J::Arr(
                o.inputs
                    .iter()
                    .map(|(n, l)| J::Arr(vec![J::Str(n.clone()), leaves(l)]))
                    .collect(),
            ),
        ),
        (
            "scalars",
            J::Arr(
                o.scalars
                    .iter()
                    .map(|(n, v)| J::Arr(vec![J::Str(n.clone()), val_j(&Some(v.clone()))]))
                    .collect(),
            ),
        ),
        (
            "outputs",
            J::Arr(
                o.outputs
                    .iter()
                    .map(|(n, l)| J::Arr(vec![J::Str(n.clone()), leaves(l)]))
                    .collect(),
            ),
        ),
        (
            "flags",
            J::Arr(
                o.flags
                    .iter()
                    .map(|(n, b)| J::Arr(vec![J::Str(n.clone()), J::Bool(*b)]))
                    .collect(),
            ),
        ),
    ])
}

fn dag_j() -> J {
    CTX.with(|c| {
        let c = c.borrow();
        J::Arr(
            c.nodes
                .iter()
                .map(|n| match n {
                    Node::Var(i) => J::Arr(vec![J::s("var"), J::Str(c.var_names[*i as usize].clone())]),
                    Node::Const(b) => J::Arr(vec![
                        J::s("const"),
                        J::Str(format!("{}", b)),
                        J::Str(format!("{:?}", f64::from_bits(*b))),
                    ]),
                    Node::Named(n) => J::Arr(vec![J::s("named"), J::s(n)]),
                    Node::Un(op, a) => J::Arr(vec![
                        J::s("un"),
                        J::Str(format!("{:?}", op).to_lowercase()),
                        J::Num(*a as f64),
                    ]),
                    Node::Bin(op, a, b) => J::Arr(vec![
                        J::s("bin"),
                        J::Str(format!("{:?}", op).to_lowercase()),
                        J::Num(*a as f64),
                        J::Num(*b as f64),
                    ]),
                    Node::Powi(a, n) => J::Arr(vec![J::s("powi"), J::Num(*a as f64), J::Num(*n as f64)]),
                    Node::MulAdd(a, b, cc) => J::Arr(vec![
                        J::s("muladd"),
                        J::Num(*a as f64),
                        J::Num(*b as f64),
                        J::Num(*cc as f64),
                    ]),
                })
                .collect(),
        )
    })
}

fn hash64(s: &str, seed: u64) -> u64 {
    // FNV-1a then a splitmix round
    let mut h: u64 = 0xcbf29ce484222325 ^ seed.wrapping_mul(0x9E3779B97F4A7C15);
    for b in s.bytes() {
        h ^= b as u64;
        h = h.wrapping_mul(0x100000001b3);
    }
    h = (h ^ (h >> 30)).wrapping_mul(0xbf58476d1ce4e5b9);
    h = (h ^ (h >> 27)).wrapping_mul(0x94d049bb133111eb);
    h ^ (h >> 31)
}

/// deterministic pseudo-random value for a variable name
fn sample_value(name: &str, round: u64, seed: u64) -> f64 {
    let u = (hash64(name, seed.wrapping_add(round * 7919)) >> 11) as f64 / (1u64 << 53) as f64;
    let is_re = name.ends_with(".re") || !name.contains('.');
    match round {
        0 => {
            if is_re {
                0.15 + 0.7 * u // inside most domains: (0.15, 0.85)
            } else {
                -1.5 + 3.0 * u
            }
        }
        1 => {
            if is_re {
                1.1 + 2.0 * u
            } else {
                -2.0 + 4.0 * u
            }
        }
        _ => -3.0 + 6.0 * u,
    }
}

fn vals_equal(a: f64, b: f64) -> bool {
    a.to_bits() == b.to_bits() || (a.is_nan() && b.is_nan())
}

/// Translator validation: the traced DAG, evaluated in f64 node by node, must reproduce the
/// native f64 instantiation of the same case bit for bit.
fn validate(spec: &Spec, paths: &[Path], seed: u64) -> (usize, usize, Vec<String>) {
    let names: Vec<String> = CTX.with(|c| c.borrow().var_names.clone());
    let mut checked = 0;
    let mut skipped = 0;
    let mut errors = vec![];
    for round in 0..3u64 {
        let assign: HashMap<String, f64> = names
            .iter()
            .map(|n| (n.clone(), sample_value(n, round, seed)))
            .collect();
        fl::set_assignment(assign.clone());
        let native = catch_unwind(AssertUnwindSafe(|| reg::dispatch_f64(spec)));
        let vals = eval_dag(&|n| assign[n]);
        // select the path whose conditions hold under the assignment
        let sel = paths.iter().find(|p| {
            p.conds.iter().all(|c| {
                eval_rel(c.rel, vals[c.a as usize], vals[c.b as usize]) == c.decision
            })
        });
        match (native, sel) {
            (Ok(nat), Some(p)) => match &p.result {
                Ok(sym) => {
                    checked += 1;
                    for ((n1, l1), (_n2, l2)) in nat.outputs.iter().zip(sym.outputs.iter()) {
                        for (k, (a, b)) in l1.iter().zip(l2.iter()).enumerate() {
                            match (a, b) {
                                (None, None) => {}
                                (Some(Val::F(x)), Some(Val::Node(i))) => {
                                    if !vals_equal(*x, vals[*i as usize]) {
                                        errors.push(format!(
                                            "round {round}: output {n1}[{k}] native {x:?} vs dag {:?}",
                                            vals[*i as usize]
                                        ));
                                    }
                                }
                                _ => errors.push(format!(
                                    "round {round}: output {n1}[{k}] presence differs native {a:?} vs dag {b:?}"
                                )),
                            }
                        }
                    }
                    for ((n1, b1), (_n2, b2)) in nat.flags.iter().zip(sym.flags.iter()) {
                        if b1 != b2 {
                            errors.push(format!("round {round}: flag {n1} native {b1} vs traced {b2}"));
                        }
                    }
                }
                Err(e) => errors.push(format!("round {round}: traced path panicked ({e}) but native ran")),
            },
            (Err(_), Some(p)) if p.result.is_err() => {
                checked += 1; // both panic on this path
            }
            (Err(_), _) => errors.push(format!("round {round}: native run panicked")),
            (Ok(_), None) => skipped += 1,
        }
    }
    (checked, skipped, errors)
}

fn cmd_trace(out: &str) {
    let stdin = std::io::stdin();
    let seed: u64 = std::env::var("VERIF_SEED").ok().and_then(|s| s.parse().ok()).unwrap_or(0);
    let max_paths: usize = std::env::var("SYMTRACE_MAX_PATHS")
        .ok()
        .and_then(|s| s.parse().ok())
        .unwrap_or(512);
    std::panic::set_hook(Box::new(|_| {}));
    let mut cases = vec![];
    for line in stdin.lock().lines() {
        let line = line.unwrap();
        if line.trim().is_empty() {
            continue;
        }
        let (spec, _) = parse_spec(&line);
        reset_all();
        let (paths, truncated) = enumerate(&spec, max_paths);
        let (checked, skipped, errors) = validate(&spec, &paths, seed);
        let pj: Vec<J> = paths
            .iter()
            .map(|p| {
                J::obj(vec![
                    (
                        "conds",
                        J::Arr(
                            p.conds
                                .iter()
                                .map(|c| {
                                    J::Arr(vec![
                                        J::Str(format!("{:?}", c.rel).to_lowercase()),
                                        J::Num(c.a as f64),
                                        J::Num(c.b as f64),
                                        J::Bool(c.decision),
                                    ])
                                })
                                .collect(),
                        ),
                    ),
                    (
                        "result",
                        match &p.result {
                            Ok(o) => out_j(o),
                            Err(e) => J::obj(vec![("panic", J::Str(e.clone()))]),
                        },
                    ),
                ])
            })
            .collect();
        cases.push(J::obj(vec![
            ("shape", J::Str(spec.shape.clone())),
            ("kind", J::Str(spec.kind.clone())),
            ("pres", J::Num(spec.pres as f64)),
            ("levels", J::Arr(reg::levels(&spec.shape).into_iter().map(J::Str).collect())),
            ("paths_names", J::Arr(reg::paths(&spec.shape).into_iter().map(J::Str).collect())),
            ("truncated", J::Bool(truncated)),
            ("paths", J::Arr(pj)),
            ("dag", dag_j()),
            (
                "validation",
                J::obj(vec![
                    ("checked", J::Num(checked as f64)),
                    ("skipped", J::Num(skipped as f64)),
                    ("errors", J::Arr(errors.into_iter().map(J::Str).collect())),
                ]),
            ),
        ]));
    }
    let doc = J::obj(vec![("cases", J::Arr(cases))]);
    let mut f = std::fs::File::create(out).unwrap();
    f.write_all(doc.to_string().as_bytes()).unwrap();
}

fn cmd_run(float: &str) {
    let stdin = std::io::stdin();
    std::panic::set_hook(Box::new(|_| {}));
    let mut res = vec![];
    for line in stdin.lock().lines() {
        let line = line.unwrap();
        if line.trim().is_empty() {
            continue;
        }
        let (spec, rest) = parse_spec(&line);
        let mut assign = HashMap::new();
        if let Some(a) = rest.first() {
            for kv in a.split(';') {
                if let Some((k, v)) = kv.split_once('=') {
                    assign.insert(k.to_string(), v.parse::<f64>().unwrap());
                }
            }
        }
        fl::set_assignment(assign);
        let r = catch_unwind(AssertUnwindSafe(|| match float {
            "f32" => reg::dispatch_f32(&spec),
            _ => reg::dispatch_f64(&spec),
        }));
        res.push(match r {
            Ok(o) => out_j(&o),
            Err(e) => J::obj(vec![(
                "panic",
                J::Str(
                    e.downcast_ref::<String>()
                        .cloned()
                        .or_else(|| e.downcast_ref::<&str>().map(|s| s.to_string()))
                        .unwrap_or_else(|| "panic".into()),
                ),
            )]),
        });
    }
    println!("{}", J::Arr(res).to_string());
}

fn main() {
    let args: Vec<String> = std::env::args().collect();
    match args.get(1).map(|s| s.as_str()) {
        Some("trace") => cmd_trace(&args[2]),
        Some("run") => cmd_run(&args[2]),
        Some("nderiv") => {
            for (s, n) in reg::nderivs() {
                println!("{}\t{}", s, n);
            }
        }
        Some("shapes") => {
            for s in reg::SHAPES {
                println!("{}\t{}\t{}", s, reg::ngroups(s), reg::paths(s).join(","));
            }
        }
        _ => {
            eprintln!("usage: symtrace trace <out.json> | run <f64|f32> | shapes");
            std::process::exit(2);
        }
    }
}
