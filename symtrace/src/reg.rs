//! Shape registry: maps shape names to type-level shapes and dispatches case kinds.
use crate::cases::{self, CaseOut};
use crate::fl::Fl;
use crate::shapes::*;
use crate::sym::S;
use crate::Spec;

macro_rules! shapes {
    ($( $name:expr => $ty:ty ),* $(,)?) => {
        pub const SHAPES: &[&str] = &[$($name),*];
        macro_rules! with_shape {
            ($n:expr, $F:ty, $f:ident, $a:tt) => {
                match $n {
                    $( $name => call!($f, $F, $ty, $a), )*
                    other => panic!("unknown shape {other}"),
                }
            };
        }
    };
}
macro_rules! call {
    ($f:ident, $F:ty, $ty:ty, ($($a:expr),*)) => { $f::<$F, $ty>($($a),*) };
}

shapes! {
    "Real" => Real,
    "Dual" => DualS<Real>,
    "Dual2" => Dual2S<Real>,
    "Dual3" => Dual3S<Real>,
    "HyperDual" => HyperS<Real>,
    "HyperHyperDual" => HHS<Real>,
    "DualVec1" => DualVecS<Real, C<1>>,
    "DualVec2" => DualVecS<Real, C<2>>,
    "DualVec3" => DualVecS<Real, C<3>>,
    "DualVec4" => DualVecS<Real, C<4>>,
    "DualVec5" => DualVecS<Real, C<5>>,
    "DualVec6" => DualVecS<Real, C<6>>,
    "DualVecD4" => DualVecS<Real, Dy<4>>,
    "DualVecD6" => DualVecS<Real, Dy<6>>,
    "DualVecD1" => DualVecS<Real, Dy<1>>,
    "DualVecD2" => DualVecS<Real, Dy<2>>,
    "DualVecD3" => DualVecS<Real, Dy<3>>,
    "Dual2Vec1" => Dual2VecS<Real, C<1>>,
    "Dual2Vec2" => Dual2VecS<Real, C<2>>,
    "Dual2Vec3" => Dual2VecS<Real, C<3>>,
    "Dual2Vec4" => Dual2VecS<Real, C<4>>,
    "Dual2VecD3" => Dual2VecS<Real, Dy<3>>,
    "Dual2VecD4" => Dual2VecS<Real, Dy<4>>,
    "Dual2VecD1" => Dual2VecS<Real, Dy<1>>,
    "Dual2VecD2" => Dual2VecS<Real, Dy<2>>,
    "HyperDualVec11" => HyperVecS<Real, C<1>, C<1>>,
    "HyperDualVec21" => HyperVecS<Real, C<2>, C<1>>,
    "HyperDualVec12" => HyperVecS<Real, C<1>, C<2>>,
    "HyperDualVec22" => HyperVecS<Real, C<2>, C<2>>,
    "HyperDualVec23" => HyperVecS<Real, C<2>, C<3>>,
    "HyperDualVec33" => HyperVecS<Real, C<3>, C<3>>,
    "HyperDualVec42" => HyperVecS<Real, C<4>, C<2>>,
    "HyperDualVecD33" => HyperVecS<Real, Dy<3>, Dy<3>>,
    "HyperDualVecD11" => HyperVecS<Real, Dy<1>, Dy<1>>,
    "HyperDualVecD22" => HyperVecS<Real, Dy<2>, Dy<2>>,
    "HyperDualVecD23" => HyperVecS<Real, Dy<2>, Dy<3>>,
    "Dual<Dual>" => DualS<DualS<Real>>,
    "Dual2<Dual>" => Dual2S<DualS<Real>>,
    "Dual<Dual2>" => DualS<Dual2S<Real>>,
    "HyperDual<Dual>" => HyperS<DualS<Real>>,
    "Dual3<Dual>" => Dual3S<DualS<Real>>,
    "Dual<Dual<Dual>>" => DualS<DualS<DualS<Real>>>,
    "DualVec2<Dual>" => DualVecS<DualS<Real>, C<2>>,
    "Dual<DualVec2>" => DualS<DualVecS<Real, C<2>>>,
    "Dual2VecD2<Dual>" => Dual2VecS<DualS<Real>, Dy<2>>,
}

fn levels_g<F: Fl, Sh: Shape<F>>() -> Vec<String> {
    Sh::levels()
}
fn paths_g<F: Fl, Sh: Shape<F>>() -> Vec<String> {
    Sh::paths()
}
fn ngroups_g<F: Fl, Sh: Shape<F>>() -> usize {
    Sh::ngroups()
}
pub fn levels(shape: &str) -> Vec<String> {
    if shape.starts_with("DV") || shape == "-" {
        return vec![shape.to_string()];
    }
    with_shape!(shape, S, levels_g, ())
}
pub fn paths(shape: &str) -> Vec<String> {
    if shape.starts_with("DV") || shape == "-" {
        return vec![];
    }
    with_shape!(shape, S, paths_g, ())
}
pub fn ngroups(shape: &str) -> usize {
    with_shape!(shape, S, ngroups_g, ())
}

fn kind_g<F: Fl, Sh: Shape<F>>(kind: &str, pres: u64) -> CaseOut
where
    for<'a> &'a Sh::N: std::ops::Add<&'a Sh::N, Output = Sh::N>
        + std::ops::Sub<&'a Sh::N, Output = Sh::N>
        + std::ops::Mul<&'a Sh::N, Output = Sh::N>
        + std::ops::Div<&'a Sh::N, Output = Sh::N>
        + std::ops::Add<Sh::N, Output = Sh::N>
        + std::ops::Sub<Sh::N, Output = Sh::N>
        + std::ops::Mul<Sh::N, Output = Sh::N>
        + std::ops::Div<Sh::N, Output = Sh::N>
        + std::ops::Neg<Output = Sh::N>,
    Sh::N: std::ops::Neg<Output = Sh::N>
        + for<'a> std::iter::Sum<&'a Sh::N>
        + for<'a> std::iter::Product<&'a Sh::N>
        + num_traits::FloatConst,
{
    if kind.starts_with("prog;") {
        return cases::run_prog::<F, Sh>(kind, pres);
    }
    match kind {
        "pred" => cases::run_pred::<F, Sh>(pres),
        _ => cases::run_kind::<F, Sh>(kind, pres),
    }
}

fn dispatch<F: Fl>(spec: &Spec) -> CaseOut
where
    for<'a> &'a F: std::ops::Add<&'a F, Output = F>
        + std::ops::Sub<&'a F, Output = F>
        + std::ops::Mul<&'a F, Output = F>
        + std::ops::Div<&'a F, Output = F>
        + std::ops::Add<F, Output = F>
        + std::ops::Sub<F, Output = F>
        + std::ops::Mul<F, Output = F>
        + std::ops::Div<F, Output = F>
        + std::ops::Neg<Output = F>,
    F: for<'a> std::iter::Sum<&'a F> + for<'a> std::iter::Product<&'a F>,
{
    let kind = spec.kind.as_str();
    let pres = spec.pres;
    if kind.starts_with("drv:") {
        return crate::drivers::run_driver::<F>(kind, pres);
    }
    if kind.starts_with("dv:") {
        use nalgebra::{Const, Dyn};
        return match spec.shape.as_str() {
            "DV21" => cases::run_dv::<F, _, _>(kind, pres, Const::<2>, Const::<1>),
            "DV12" => cases::run_dv::<F, _, _>(kind, pres, Const::<1>, Const::<2>),
            "DV22" => cases::run_dv::<F, _, _>(kind, pres, Const::<2>, Const::<2>),
            "DV23" => cases::run_dv::<F, _, _>(kind, pres, Const::<2>, Const::<3>),
            "DVD21" => cases::run_dv::<F, _, _>(kind, pres, Dyn(2), Const::<1>),
            "DVD22" => cases::run_dv::<F, _, _>(kind, pres, Dyn(2), Dyn(2)),
            other => panic!("dv not available for shape {other}"),
        };
    }
    if kind.starts_with("lu;") {
        return match spec.shape.as_str() {
            "Real" => cases::run_lu::<F, Real>(kind, pres),
            "Dual" => cases::run_lu::<F, DualS<Real>>(kind, pres),
            "Dual2" => cases::run_lu::<F, Dual2S<Real>>(kind, pres),
            "HyperDual" => cases::run_lu::<F, HyperS<Real>>(kind, pres),
            "Dual3" => cases::run_lu::<F, Dual3S<Real>>(kind, pres),
            "DualVec2" => cases::run_lu::<F, DualVecS<Real, C<2>>>(kind, pres),
            other => panic!("lu not available for shape {other}"),
        };
    }
    if kind.starts_with("jac;") {
        return match spec.shape.as_str() {
            "Real" => cases::run_jac::<F, Real>(kind, pres),
            "Dual" => cases::run_jac::<F, DualS<Real>>(kind, pres),
            "Dual2" => cases::run_jac::<F, Dual2S<Real>>(kind, pres),
            "HyperDual" => cases::run_jac::<F, HyperS<Real>>(kind, pres),
            other => panic!("jac not available for shape {other}"),
        };
    }
    if kind == "cmp" {
        return match spec.shape.as_str() {
            "Real" => cases::run_cmp::<F, Real>(pres),
            "Dual" => cases::run_cmp::<F, DualS<Real>>(pres),
            "Dual2" => cases::run_cmp::<F, Dual2S<Real>>(pres),
            "DualVec2" => cases::run_cmp::<F, DualVecS<Real, C<2>>>(pres),
            "DualVecD2" => cases::run_cmp::<F, DualVecS<Real, Dy<2>>>(pres),
            "Dual2Vec2" => cases::run_cmp::<F, Dual2VecS<Real, C<2>>>(pres),
            "Dual2VecD2" => cases::run_cmp::<F, Dual2VecS<Real, Dy<2>>>(pres),
            "Dual<Dual>" => cases::run_cmp::<F, DualS<DualS<Real>>>(pres),
            "Dual2<Dual>" => cases::run_cmp::<F, Dual2S<DualS<Real>>>(pres),
            other => panic!("cmp not available for shape {other}"),
        };
    }
    with_shape!(spec.shape.as_str(), F, kind_g, (kind, pres))
}

pub fn dispatch_s(spec: &Spec) -> CaseOut {
    dispatch::<S>(spec)
}
pub fn dispatch_f64(spec: &Spec) -> CaseOut {
    dispatch::<f64>(spec)
}
pub fn dispatch_f32(spec: &Spec) -> CaseOut {
    dispatch::<f32>(spec)
}

fn nderiv_g<F: Fl, Sh: Shape<F>>() -> usize {
    <Sh::N as num_dual::DualNum<F>>::NDERIV
}
pub fn nderivs() -> Vec<(String, usize)> {
    SHAPES
        .iter()
        .map(|s| (s.to_string(), with_shape!(*s, f64, nderiv_g, ())))
        .collect()
}
