//! Shapes: type-level descriptions of (nested) dual number types over a float `F`, with generic
//! construction from named inputs (any presence pattern) and flattening into scalar leaves.
//! Only the public API of num-dual is used (`new`, public fields, `Derivative::{some,none,
//! unwrap_generic}`, `== Derivative::none()`).
use crate::fl::Fl;
use nalgebra::{Const, Dyn, OMatrix, U1};
use num_dual::*;
use std::marker::PhantomData;

pub trait Shape<F: Fl>: 'static {
    type N: DualNum<F> + Clone + PartialEq + 'static;
    /// outermost level first, e.g. ["Dual2Vec:2:dyn", "Dual"]
    fn levels() -> Vec<String>;
    /// leaf path names, outer-major
    fn paths() -> Vec<String>;
    fn build(name: &str, pres: &mut dyn FnMut() -> bool) -> Self::N;
    fn leaves(n: &Self::N, out: &mut Vec<Option<F>>);
    /// same value with every absent derivative part replaced by an explicit zero matrix
    fn zero_fill(n: &Self::N) -> Self::N;
    /// number of optional groups consumed by `build`
    fn ngroups() -> usize;
}

fn join(a: &str, b: &str) -> String {
    if b.is_empty() {
        a.to_string()
    } else {
        format!("{a}.{b}")
    }
}

pub struct Real;
impl<F: Fl> Shape<F> for Real {
    type N = F;
    fn levels() -> Vec<String> {
        vec![]
    }
    fn paths() -> Vec<String> {
        vec![String::new()]
    }
    fn build(name: &str, _p: &mut dyn FnMut() -> bool) -> F {
        F::input(name)
    }
    fn leaves(n: &F, out: &mut Vec<Option<F>>) {
        out.push(Some(*n));
    }
    fn zero_fill(n: &F) -> F {
        *n
    }
    fn ngroups() -> usize {
        0
    }
}

macro_rules! scalar_shape {
    ($marker:ident, $ty:ident, $label:expr, [$($part:ident),*]) => {
        pub struct $marker<I>(PhantomData<I>);
        impl<F: Fl, I: Shape<F>> Shape<F> for $marker<I> {
            type N = $ty<I::N, F>;
            fn levels() -> Vec<String> {
                let mut v = vec![$label.to_string()];
                v.extend(I::levels());
                v
            }
            fn paths() -> Vec<String> {
                let mut v = vec![];
                $( for p in I::paths() { v.push(join(stringify!($part), &p)); } )*
                v
            }
            fn build(name: &str, pres: &mut dyn FnMut() -> bool) -> Self::N {
                $ty::new($( I::build(&format!("{}.{}", name, stringify!($part)), pres) ),*)
            }
            fn leaves(n: &Self::N, out: &mut Vec<Option<F>>) {
                $( I::leaves(&n.$part, out); )*
            }
            fn zero_fill(n: &Self::N) -> Self::N {
                $ty::new($( I::zero_fill(&n.$part) ),*)
            }
            fn ngroups() -> usize {
                0 $( + { let _ = stringify!($part); I::ngroups() } )*
            }
        }
    };
}

scalar_shape!(DualS, Dual, "Dual", [re, eps]);
scalar_shape!(Dual2S, Dual2, "Dual2", [re, v1, v2]);
scalar_shape!(Dual3S, Dual3, "Dual3", [re, v1, v2, v3]);
scalar_shape!(HyperS, HyperDual, "HyperDual", [re, eps1, eps2, eps1eps2]);
scalar_shape!(
    HHS,
    HyperHyperDual,
    "HyperHyperDual",
    [re, eps1, eps2, eps3, eps1eps2, eps1eps3, eps2eps3, eps1eps2eps3]
);

/// dimension markers
pub struct C<const N: usize>;
pub struct Dy<const N: usize>;

fn build_mat<F: Fl, I: Shape<F>, R: nalgebra::Dim, Cc: nalgebra::Dim>(
    name: &str,
    part: &str,
    r: R,
    c: Cc,
    vector: bool,
    pres: &mut dyn FnMut() -> bool,
) -> Derivative<I::N, F, R, Cc>
where
    nalgebra::DefaultAllocator: nalgebra::allocator::Allocator<R, Cc>,
{
    if pres() {
        // build column-major so that the order of `pres` calls of nested shapes is the storage order
        let (nr, nc) = (r.value(), c.value());
        let mut elems: Vec<I::N> = Vec::with_capacity(nr * nc);
        for j in 0..nc {
            for i in 0..nr {
                let nm = if vector {
                    format!("{}.{}[{}]", name, part, i.max(j))
                } else {
                    format!("{}.{}[{},{}]", name, part, i, j)
                };
                elems.push(I::build(&nm, pres));
            }
        }
        Derivative::some(OMatrix::from_iterator_generic(r, c, elems))
    } else {
        Derivative::none()
    }
}

fn mat_paths(part: &str, nr: usize, nc: usize, vector: bool, inner: &[String]) -> Vec<String> {
    let mut v = vec![];
    for j in 0..nc {
        for i in 0..nr {
            let nm = if vector {
                format!("{}[{}]", part, i.max(j))
            } else {
                format!("{}[{},{}]", part, i, j)
            };
            for p in inner {
                v.push(join(&nm, p));
            }
        }
    }
    v
}

fn mat_leaves<F: Fl, I: Shape<F>, R: nalgebra::Dim, Cc: nalgebra::Dim>(
    d: &Derivative<I::N, F, R, Cc>,
    r: R,
    c: Cc,
    out: &mut Vec<Option<F>>,
) where
    nalgebra::DefaultAllocator: nalgebra::allocator::Allocator<R, Cc>,
{
    let per = I::paths().len();
    if *d == Derivative::none() {
        for _ in 0..(r.value() * c.value() * per) {
            out.push(None);
        }
    } else {
        let m = d.clone().unwrap_generic(r, c);
        assert_eq!(m.shape(), (r.value(), c.value()), "derivative part has the wrong shape");
        for e in m.iter() {
            I::leaves(e, out);
        }
    }
}

fn mat_zero_fill<F: Fl, I: Shape<F>, R: nalgebra::Dim, Cc: nalgebra::Dim>(
    d: &Derivative<I::N, F, R, Cc>,
    r: R,
    c: Cc,
) -> Derivative<I::N, F, R, Cc>
where
    nalgebra::DefaultAllocator: nalgebra::allocator::Allocator<R, Cc>,
{
    let m = d.clone().unwrap_generic(r, c);
    Derivative::some(m.map(|e| I::zero_fill(&e)))
}

macro_rules! dualvec_shape {
    ($dm:ty, $D:ty, $d:expr, $n:expr, $tag:expr) => {
        impl<F: Fl, I: Shape<F>> Shape<F> for DualVecS<I, $dm> {
            type N = DualVec<I::N, F, $D>;
            fn levels() -> Vec<String> {
                let mut v = vec![format!("DualVec:{}:{}", $n, $tag)];
                v.extend(I::levels());
                v
            }
            fn paths() -> Vec<String> {
                let inner = I::paths();
                let mut v: Vec<String> = inner.iter().map(|p| join("re", p)).collect();
                v.extend(mat_paths("eps", $n, 1, true, &inner));
                v
            }
            fn build(name: &str, pres: &mut dyn FnMut() -> bool) -> Self::N {
                let re = I::build(&format!("{name}.re"), pres);
                DualVec::new(re, build_mat::<F, I, _, _>(name, "eps", $d, U1, true, pres))
            }
            fn leaves(n: &Self::N, out: &mut Vec<Option<F>>) {
                I::leaves(&n.re, out);
                mat_leaves::<F, I, _, _>(&n.eps, $d, U1, out);
            }
            fn zero_fill(n: &Self::N) -> Self::N {
                DualVec::new(I::zero_fill(&n.re), mat_zero_fill::<F, I, _, _>(&n.eps, $d, U1))
            }
            fn ngroups() -> usize {
                I::ngroups() + 1 + $n * I::ngroups()
            }
        }
        impl<F: Fl, I: Shape<F>> Shape<F> for Dual2VecS<I, $dm> {
            type N = Dual2Vec<I::N, F, $D>;
            fn levels() -> Vec<String> {
                let mut v = vec![format!("Dual2Vec:{}:{}", $n, $tag)];
                v.extend(I::levels());
                v
            }
            fn paths() -> Vec<String> {
                let inner = I::paths();
                let mut v: Vec<String> = inner.iter().map(|p| join("re", p)).collect();
                v.extend(mat_paths("v1", 1, $n, true, &inner));
                v.extend(mat_paths("v2", $n, $n, false, &inner));
                v
            }
            fn build(name: &str, pres: &mut dyn FnMut() -> bool) -> Self::N {
                let re = I::build(&format!("{name}.re"), pres);
                let v1 = build_mat::<F, I, _, _>(name, "v1", U1, $d, true, pres);
                let v2 = build_mat::<F, I, _, _>(name, "v2", $d, $d, false, pres);
                Dual2Vec::new(re, v1, v2)
            }
            fn leaves(n: &Self::N, out: &mut Vec<Option<F>>) {
                I::leaves(&n.re, out);
                mat_leaves::<F, I, _, _>(&n.v1, U1, $d, out);
                mat_leaves::<F, I, _, _>(&n.v2, $d, $d, out);
            }
            fn zero_fill(n: &Self::N) -> Self::N {
                Dual2Vec::new(
                    I::zero_fill(&n.re),
                    mat_zero_fill::<F, I, _, _>(&n.v1, U1, $d),
                    mat_zero_fill::<F, I, _, _>(&n.v2, $d, $d),
                )
            }
            fn ngroups() -> usize {
                I::ngroups() + 2 + ($n + $n * $n) * I::ngroups()
            }
        }
    };
}

pub struct DualVecS<I, D>(PhantomData<(I, D)>);
pub struct Dual2VecS<I, D>(PhantomData<(I, D)>);
pub struct HyperVecS<I, M, N>(PhantomData<(I, M, N)>);

dualvec_shape!(C<1>, Const<1>, Const::<1>, 1, "static");
dualvec_shape!(C<2>, Const<2>, Const::<2>, 2, "static");
dualvec_shape!(C<3>, Const<3>, Const::<3>, 3, "static");
dualvec_shape!(C<4>, Const<4>, Const::<4>, 4, "static");
dualvec_shape!(C<5>, Const<5>, Const::<5>, 5, "static");
dualvec_shape!(C<6>, Const<6>, Const::<6>, 6, "static");
dualvec_shape!(Dy<1>, Dyn, Dyn(1), 1, "dyn");
dualvec_shape!(Dy<2>, Dyn, Dyn(2), 2, "dyn");
dualvec_shape!(Dy<3>, Dyn, Dyn(3), 3, "dyn");
dualvec_shape!(Dy<4>, Dyn, Dyn(4), 4, "dyn");
dualvec_shape!(Dy<6>, Dyn, Dyn(6), 6, "dyn");

macro_rules! hypervec_shape {
    ($mm:ty, $nm:ty, $M:ty, $N:ty, $m:expr, $n:expr, $mv:expr, $nv:expr, $tag:expr) => {
        impl<F: Fl, I: Shape<F>> Shape<F> for HyperVecS<I, $mm, $nm> {
            type N = HyperDualVec<I::N, F, $M, $N>;
            fn levels() -> Vec<String> {
                let mut v = vec![format!("HyperDualVec:{}x{}:{}", $mv, $nv, $tag)];
                v.extend(I::levels());
                v
            }
            fn paths() -> Vec<String> {
                let inner = I::paths();
                let mut v: Vec<String> = inner.iter().map(|p| join("re", p)).collect();
                v.extend(mat_paths("eps1", $mv, 1, true, &inner));
                v.extend(mat_paths("eps2", 1, $nv, true, &inner));
                v.extend(mat_paths("eps1eps2", $mv, $nv, false, &inner));
                v
            }
            fn build(name: &str, pres: &mut dyn FnMut() -> bool) -> Self::N {
                let re = I::build(&format!("{name}.re"), pres);
                let e1 = build_mat::<F, I, _, _>(name, "eps1", $m, U1, true, pres);
                let e2 = build_mat::<F, I, _, _>(name, "eps2", U1, $n, true, pres);
                let e12 = build_mat::<F, I, _, _>(name, "eps1eps2", $m, $n, false, pres);
                HyperDualVec::new(re, e1, e2, e12)
            }
            fn leaves(n: &Self::N, out: &mut Vec<Option<F>>) {
                I::leaves(&n.re, out);
                mat_leaves::<F, I, _, _>(&n.eps1, $m, U1, out);
                mat_leaves::<F, I, _, _>(&n.eps2, U1, $n, out);
                mat_leaves::<F, I, _, _>(&n.eps1eps2, $m, $n, out);
            }
            fn zero_fill(n: &Self::N) -> Self::N {
                HyperDualVec::new(
                    I::zero_fill(&n.re),
                    mat_zero_fill::<F, I, _, _>(&n.eps1, $m, U1),
                    mat_zero_fill::<F, I, _, _>(&n.eps2, U1, $n),
                    mat_zero_fill::<F, I, _, _>(&n.eps1eps2, $m, $n),
                )
            }
            fn ngroups() -> usize {
                I::ngroups() + 3 + ($mv + $nv + $mv * $nv) * I::ngroups()
            }
        }
    };
}

hypervec_shape!(C<1>, C<1>, Const<1>, Const<1>, Const::<1>, Const::<1>, 1, 1, "static");
hypervec_shape!(C<2>, C<1>, Const<2>, Const<1>, Const::<2>, Const::<1>, 2, 1, "static");
hypervec_shape!(C<1>, C<2>, Const<1>, Const<2>, Const::<1>, Const::<2>, 1, 2, "static");
hypervec_shape!(C<2>, C<2>, Const<2>, Const<2>, Const::<2>, Const::<2>, 2, 2, "static");
hypervec_shape!(C<2>, C<3>, Const<2>, Const<3>, Const::<2>, Const::<3>, 2, 3, "static");
hypervec_shape!(C<3>, C<2>, Const<3>, Const<2>, Const::<3>, Const::<2>, 3, 2, "static");
hypervec_shape!(C<3>, C<3>, Const<3>, Const<3>, Const::<3>, Const::<3>, 3, 3, "static");
hypervec_shape!(C<4>, C<2>, Const<4>, Const<2>, Const::<4>, Const::<2>, 4, 2, "static");
hypervec_shape!(Dy<3>, Dy<3>, Dyn, Dyn, Dyn(3), Dyn(3), 3, 3, "dyn");
hypervec_shape!(Dy<1>, Dy<1>, Dyn, Dyn, Dyn(1), Dyn(1), 1, 1, "dyn");
hypervec_shape!(Dy<2>, Dy<1>, Dyn, Dyn, Dyn(2), Dyn(1), 2, 1, "dyn");
hypervec_shape!(Dy<1>, Dy<2>, Dyn, Dyn, Dyn(1), Dyn(2), 1, 2, "dyn");
hypervec_shape!(Dy<2>, Dy<2>, Dyn, Dyn, Dyn(2), Dyn(2), 2, 2, "dyn");
hypervec_shape!(Dy<2>, Dy<3>, Dyn, Dyn, Dyn(2), Dyn(3), 2, 3, "dyn");
