//! The symbolic scalar `S`: a handle into a thread-local, hash-consed expression DAG.
//! Every arithmetic operation records a node; every boolean observation of a non-constant
//! scalar is a *fork*, answered from a decision script and recorded as a path condition.
#![allow(clippy::should_implement_trait)]

use num_traits::{
    Float, FloatConst, FromPrimitive, Inv, Num, NumCast, One, Signed, ToPrimitive, Zero,
};
use std::cell::RefCell;
use std::cmp::Ordering;
use std::collections::HashMap;
use std::fmt;
use std::iter::{Product, Sum};
use std::num::FpCategory;
use std::ops::*;

#[derive(Clone, Copy, PartialEq, Eq, Hash, Debug)]
pub enum Un {
    Neg,
    Recip,
    Sqrt,
    Cbrt,
    Exp,
    Exp2,
    ExpM1,
    Ln,
    Log2,
    Log10,
    Ln1p,
    Sin,
    Cos,
    Tan,
    Asin,
    Acos,
    Atan,
    Sinh,
    Cosh,
    Tanh,
    Asinh,
    Acosh,
    Atanh,
    Abs,
    Signum,
}

#[derive(Clone, Copy, PartialEq, Eq, Hash, Debug)]
pub enum Bin {
    Add,
    Sub,
    Mul,
    Div,
    Powf,
    Log,
    Atan2,
    Max,
    Min,
    Hypot,
}

#[derive(Clone, PartialEq, Eq, Hash, Debug)]
pub enum Node {
    Var(u32),
    Const(u64),
    Named(&'static str),
    Un(Un, u32),
    Bin(Bin, u32, u32),
    Powi(u32, i32),
    MulAdd(u32, u32, u32),
}

#[derive(Clone, Copy, PartialEq, Eq, Hash, Debug)]
pub enum Rel {
    Lt,
    Le,
    Eq,
    /// `is_sign_positive` / `Signed::is_positive`: true for +0.0 and positive values
    SignPos,
    /// `is_sign_negative` / `Signed::is_negative`: true for -0.0 and negative values
    SignNeg,
    IsNan,
    IsInf,
}

#[derive(Clone, Debug)]
pub struct Cond {
    pub rel: Rel,
    pub a: u32,
    pub b: u32,
    pub decision: bool,
}

#[derive(Default)]
pub struct Ctx {
    pub nodes: Vec<Node>,
    pub intern: HashMap<Node, u32>,
    pub var_names: Vec<String>,
    pub script: Vec<bool>,
    pub decisions: Vec<bool>,
    pub conds: Vec<Cond>,
    pub memo: HashMap<(Rel, u32, u32), bool>,
    pub max_forks: usize,
}

thread_local! {
    pub static CTX: RefCell<Ctx> = RefCell::new(Ctx { max_forks: 40, ..Default::default() });
}

pub struct ForkLimit;

pub fn reset_all() {
    CTX.with(|c| {
        let mut c = c.borrow_mut();
        let mf = c.max_forks;
        *c = Ctx {
            max_forks: mf,
            ..Default::default()
        };
    })
}

/// Start a new path of the same case: keeps the DAG (hash-consing makes node ids stable across
/// paths of one case), resets the decisions.
pub fn start_path(script: Vec<bool>) {
    CTX.with(|c| {
        let mut c = c.borrow_mut();
        c.script = script;
        c.decisions.clear();
        c.conds.clear();
        c.memo.clear();
    })
}

pub fn take_path() -> (Vec<bool>, Vec<Cond>) {
    CTX.with(|c| {
        let c = c.borrow();
        (c.decisions.clone(), c.conds.clone())
    })
}

fn mk(n: Node) -> S {
    CTX.with(|c| {
        let mut c = c.borrow_mut();
        if let Some(&i) = c.intern.get(&n) {
            return S(i);
        }
        let i = c.nodes.len() as u32;
        c.nodes.push(n.clone());
        c.intern.insert(n, i);
        S(i)
    })
}

pub fn node_of(s: S) -> Node {
    CTX.with(|c| c.borrow().nodes[s.0 as usize].clone())
}

pub const NAMED: &[(&str, f64)] = &[
    ("E", std::f64::consts::E),
    ("FRAC_1_PI", std::f64::consts::FRAC_1_PI),
    ("FRAC_1_SQRT_2", std::f64::consts::FRAC_1_SQRT_2),
    ("FRAC_2_PI", std::f64::consts::FRAC_2_PI),
    ("FRAC_2_SQRT_PI", std::f64::consts::FRAC_2_SQRT_PI),
    ("FRAC_PI_2", std::f64::consts::FRAC_PI_2),
    ("FRAC_PI_3", std::f64::consts::FRAC_PI_3),
    ("FRAC_PI_4", std::f64::consts::FRAC_PI_4),
    ("FRAC_PI_6", std::f64::consts::FRAC_PI_6),
    ("FRAC_PI_8", std::f64::consts::FRAC_PI_8),
    ("LN_10", std::f64::consts::LN_10),
    ("LN_2", std::f64::consts::LN_2),
    ("LOG10_E", std::f64::consts::LOG10_E),
    ("LOG2_E", std::f64::consts::LOG2_E),
    ("PI", std::f64::consts::PI),
    ("SQRT_2", std::f64::consts::SQRT_2),
    ("TAU", std::f64::consts::TAU),
    ("LOG10_2", std::f64::consts::LOG10_2),
    ("LOG2_10", std::f64::consts::LOG2_10),
    ("EPSILON", f64::EPSILON),
    ("MAX", f64::MAX),
    ("MIN", f64::MIN),
    ("MIN_POSITIVE", f64::MIN_POSITIVE),
    ("INFINITY", f64::INFINITY),
    ("NEG_INFINITY", f64::NEG_INFINITY),
    ("NAN", f64::NAN),
];

pub fn named_value(name: &str) -> f64 {
    NAMED
        .iter()
        .find(|(n, _)| *n == name)
        .map(|(_, v)| *v)
        .unwrap_or_else(|| panic!("unknown named constant {name}"))
}

/// Named constants that differ between f32 and f64 (or are not finite) are never folded.
fn foldable_named(name: &str) -> bool {
    !matches!(
        name,
        "EPSILON" | "MAX" | "MIN" | "MIN_POSITIVE" | "INFINITY" | "NEG_INFINITY" | "NAN"
    )
}

#[derive(Clone, Copy)]
pub struct S(pub u32);

impl S {
    pub const EPSILON: S = S(u32::MAX); // placeholder replaced through `epsilon()`; see `resolve`
    pub fn var(name: &str) -> S {
        let idx = CTX.with(|c| {
            let mut c = c.borrow_mut();
            if let Some(p) = c.var_names.iter().position(|n| n == name) {
                p as u32
            } else {
                c.var_names.push(name.to_string());
                (c.var_names.len() - 1) as u32
            }
        });
        mk(Node::Var(idx))
    }
    pub fn c(v: f64) -> S {
        mk(Node::Const(v.to_bits()))
    }
    pub fn named(n: &'static str) -> S {
        mk(Node::Named(n))
    }
    #[inline]
    fn r(self) -> S {
        // `S::EPSILON` is an associated const (needed by the repository's leaf macro text);
        // it cannot allocate a node, so it is a sentinel resolved on first use.
        if self.0 == u32::MAX {
            S::named("EPSILON")
        } else {
            self
        }
    }
    pub fn id(self) -> u32 {
        self.r().0
    }
    fn un(self, op: Un) -> S {
        mk(Node::Un(op, self.r().0))
    }
    fn bin(self, op: Bin, o: S) -> S {
        mk(Node::Bin(op, self.r().0, o.r().0))
    }

    /// Value of a node that is built from literal constants only (no variables, no
    /// width-dependent named constants).
    pub fn const_value(self) -> Option<f64> {
        const_eval(self.r().0)
    }

    // inherent methods mirroring the std float API (needed so that the repository's
    // `impl_dual_num_float!` text expands for `S`)
    pub fn mul_add(self, a: S, b: S) -> S {
        mk(Node::MulAdd(self.r().0, a.r().0, b.r().0))
    }
    pub fn recip(self) -> S {
        self.un(Un::Recip)
    }
    pub fn powi(self, n: i32) -> S {
        mk(Node::Powi(self.r().0, n))
    }
    pub fn powf(self, n: S) -> S {
        self.bin(Bin::Powf, n)
    }
    pub fn sqrt(self) -> S {
        self.un(Un::Sqrt)
    }
    pub fn cbrt(self) -> S {
        self.un(Un::Cbrt)
    }
    pub fn exp(self) -> S {
        self.un(Un::Exp)
    }
    pub fn exp2(self) -> S {
        self.un(Un::Exp2)
    }
    pub fn exp_m1(self) -> S {
        self.un(Un::ExpM1)
    }
    pub fn ln(self) -> S {
        self.un(Un::Ln)
    }
    pub fn log(self, base: S) -> S {
        self.bin(Bin::Log, base)
    }
    pub fn log2(self) -> S {
        self.un(Un::Log2)
    }
    pub fn log10(self) -> S {
        self.un(Un::Log10)
    }
    pub fn ln_1p(self) -> S {
        self.un(Un::Ln1p)
    }
    pub fn sin(self) -> S {
        self.un(Un::Sin)
    }
    pub fn cos(self) -> S {
        self.un(Un::Cos)
    }
    pub fn tan(self) -> S {
        self.un(Un::Tan)
    }
    pub fn sin_cos(self) -> (S, S) {
        (self.un(Un::Sin), self.un(Un::Cos))
    }
    pub fn asin(self) -> S {
        self.un(Un::Asin)
    }
    pub fn acos(self) -> S {
        self.un(Un::Acos)
    }
    pub fn atan(self) -> S {
        self.un(Un::Atan)
    }
    pub fn atan2(self, o: S) -> S {
        self.bin(Bin::Atan2, o)
    }
    pub fn sinh(self) -> S {
        self.un(Un::Sinh)
    }
    pub fn cosh(self) -> S {
        self.un(Un::Cosh)
    }
    pub fn tanh(self) -> S {
        self.un(Un::Tanh)
    }
    pub fn asinh(self) -> S {
        self.un(Un::Asinh)
    }
    pub fn acosh(self) -> S {
        self.un(Un::Acosh)
    }
    pub fn atanh(self) -> S {
        self.un(Un::Atanh)
    }
    pub fn abs(self) -> S {
        self.un(Un::Abs)
    }
    pub fn signum(self) -> S {
        self.un(Un::Signum)
    }
    pub fn hypot(self, o: S) -> S {
        self.bin(Bin::Hypot, o)
    }
    pub fn max(self, o: S) -> S {
        self.bin(Bin::Max, o)
    }
    pub fn min(self, o: S) -> S {
        self.bin(Bin::Min, o)
    }
}

fn const_eval(i: u32) -> Option<f64> {
    let n = CTX.with(|c| c.borrow().nodes[i as usize].clone());
    Some(match n {
        Node::Var(_) => return None,
        Node::Const(b) => f64::from_bits(b),
        Node::Named(n) => {
            if foldable_named(n) {
                named_value(n)
            } else {
                return None;
            }
        }
        Node::Un(op, a) => eval_un(op, const_eval(a)?),
        Node::Bin(op, a, b) => eval_bin(op, const_eval(a)?, const_eval(b)?),
        Node::Powi(a, n) => const_eval(a)?.powi(n),
        Node::MulAdd(a, b, c) => const_eval(a)?.mul_add(const_eval(b)?, const_eval(c)?),
    })
}

pub fn eval_un(op: Un, a: f64) -> f64 {
    match op {
        Un::Neg => -a,
        Un::Recip => a.recip(),
        Un::Sqrt => a.sqrt(),
        Un::Cbrt => a.cbrt(),
        Un::Exp => a.exp(),
        Un::Exp2 => a.exp2(),
        Un::ExpM1 => a.exp_m1(),
        Un::Ln => a.ln(),
        Un::Log2 => a.log2(),
        Un::Log10 => a.log10(),
        Un::Ln1p => a.ln_1p(),
        Un::Sin => a.sin(),
        Un::Cos => a.cos(),
        Un::Tan => a.tan(),
        Un::Asin => a.asin(),
        Un::Acos => a.acos(),
        Un::Atan => a.atan(),
        Un::Sinh => a.sinh(),
        Un::Cosh => a.cosh(),
        Un::Tanh => a.tanh(),
        Un::Asinh => a.asinh(),
        Un::Acosh => a.acosh(),
        Un::Atanh => a.atanh(),
        Un::Abs => a.abs(),
        Un::Signum => a.signum(),
    }
}

pub fn eval_bin(op: Bin, a: f64, b: f64) -> f64 {
    match op {
        Bin::Add => a + b,
        Bin::Sub => a - b,
        Bin::Mul => a * b,
        Bin::Div => a / b,
        Bin::Powf => a.powf(b),
        Bin::Log => a.log(b),
        Bin::Atan2 => a.atan2(b),
        Bin::Max => a.max(b),
        Bin::Min => a.min(b),
        Bin::Hypot => a.hypot(b),
    }
}

pub fn eval_rel(rel: Rel, a: f64, b: f64) -> bool {
    match rel {
        Rel::Lt => a < b,
        Rel::Le => a <= b,
        Rel::Eq => a == b,
        Rel::SignPos => a.is_sign_positive(),
        Rel::SignNeg => a.is_sign_negative(),
        Rel::IsNan => a.is_nan(),
        Rel::IsInf => a.is_infinite(),
    }
}

/// Ask for a boolean observation. Constants are evaluated; everything else forks.
pub fn fork(rel: Rel, a: S, b: S) -> bool {
    let (a, b) = (a.r(), b.r());
    if let (Some(x), Some(y)) = (a.const_value(), b.const_value()) {
        return eval_rel(rel, x, y);
    }
    // a literal compared with EPSILON: decided when f32 and f64 agree on the answer
    if let Some(x) = a.const_value() {
        if matches!(node_of(b), Node::Named("EPSILON")) {
            let r64 = eval_rel(rel, x, f64::EPSILON);
            let r32 = eval_rel(rel, x, f32::EPSILON as f64);
            if r64 == r32 {
                return r64;
            }
        }
    }
    let limit_hit = CTX.with(|c| {
        let mut c = c.borrow_mut();
        if let Some(&d) = c.memo.get(&(rel, a.0, b.0)) {
            return Ok(d);
        }
        if c.decisions.len() >= c.max_forks {
            return Err(());
        }
        let k = c.decisions.len();
        let d = if k < c.script.len() { c.script[k] } else { true };
        c.decisions.push(d);
        c.conds.push(Cond {
            rel,
            a: a.0,
            b: b.0,
            decision: d,
        });
        c.memo.insert((rel, a.0, b.0), d);
        Ok(d)
    });
    match limit_hit {
        Ok(d) => d,
        Err(()) => std::panic::panic_any(ForkLimit),
    }
}

fn zero_s() -> S {
    S::c(0.0)
}

impl fmt::Debug for S {
    fn fmt(&self, f: &mut fmt::Formatter) -> fmt::Result {
        write!(f, "s{}", self.r().0)
    }
}
impl fmt::Display for S {
    fn fmt(&self, f: &mut fmt::Formatter) -> fmt::Result {
        write!(f, "s{}", self.r().0)
    }
}

impl PartialEq for S {
    fn eq(&self, o: &S) -> bool {
        fork(Rel::Eq, *self, *o)
    }
}
impl PartialOrd for S {
    fn partial_cmp(&self, o: &S) -> Option<Ordering> {
        if fork(Rel::Lt, *self, *o) {
            Some(Ordering::Less)
        } else if fork(Rel::Eq, *self, *o) {
            Some(Ordering::Equal)
        } else if fork(Rel::Lt, *o, *self) {
            Some(Ordering::Greater)
        } else {
            None
        }
    }
    fn lt(&self, o: &S) -> bool {
        fork(Rel::Lt, *self, *o)
    }
    fn le(&self, o: &S) -> bool {
        fork(Rel::Le, *self, *o)
    }
    fn gt(&self, o: &S) -> bool {
        fork(Rel::Lt, *o, *self)
    }
    fn ge(&self, o: &S) -> bool {
        fork(Rel::Le, *o, *self)
    }
}

macro_rules! binop {
    ($tr:ident, $m:ident, $op:expr) => {
        impl $tr<S> for S {
            type Output = S;
            #[inline]
            fn $m(self, o: S) -> S {
                self.bin($op, o)
            }
        }
        impl<'a> $tr<&'a S> for S {
            type Output = S;
            #[inline]
            fn $m(self, o: &S) -> S {
                self.bin($op, *o)
            }
        }
        impl<'a> $tr<S> for &'a S {
            type Output = S;
            #[inline]
            fn $m(self, o: S) -> S {
                (*self).bin($op, o)
            }
        }
        impl<'a, 'b> $tr<&'a S> for &'b S {
            type Output = S;
            #[inline]
            fn $m(self, o: &S) -> S {
                (*self).bin($op, *o)
            }
        }
        impl $tr<f64> for S {
            type Output = S;
            #[inline]
            fn $m(self, o: f64) -> S {
                self.bin($op, S::c(o))
            }
        }
        impl<'a> $tr<f64> for &'a S {
            type Output = S;
            #[inline]
            fn $m(self, o: f64) -> S {
                (*self).bin($op, S::c(o))
            }
        }
        impl $tr<S> for f64 {
            type Output = S;
            #[inline]
            fn $m(self, o: S) -> S {
                S::c(self).bin($op, o)
            }
        }
        impl<'a> $tr<&'a S> for f64 {
            type Output = S;
            #[inline]
            fn $m(self, o: &S) -> S {
                S::c(self).bin($op, *o)
            }
        }
    };
}
binop!(Add, add, Bin::Add);
binop!(Sub, sub, Bin::Sub);
binop!(Mul, mul, Bin::Mul);
binop!(Div, div, Bin::Div);

impl Rem for S {
    type Output = S;
    fn rem(self, _o: S) -> S {
        unimplemented!("S % S")
    }
}
impl<'a> Rem<&'a S> for S {
    type Output = S;
    fn rem(self, _o: &S) -> S {
        unimplemented!("S % &S")
    }
}
impl RemAssign for S {
    fn rem_assign(&mut self, _o: S) {
        unimplemented!("S %= S")
    }
}
impl<'a> RemAssign<&'a S> for S {
    fn rem_assign(&mut self, _o: &S) {
        unimplemented!("S %= S")
    }
}

macro_rules! assignop {
    ($tr:ident, $m:ident, $op:expr) => {
        impl $tr<S> for S {
            #[inline]
            fn $m(&mut self, o: S) {
                *self = self.bin($op, o);
            }
        }
        impl<'a> $tr<&'a S> for S {
            #[inline]
            fn $m(&mut self, o: &S) {
                *self = self.bin($op, *o);
            }
        }
    };
}
assignop!(AddAssign, add_assign, Bin::Add);
assignop!(SubAssign, sub_assign, Bin::Sub);
assignop!(MulAssign, mul_assign, Bin::Mul);
assignop!(DivAssign, div_assign, Bin::Div);

impl Neg for S {
    type Output = S;
    #[inline]
    fn neg(self) -> S {
        self.un(Un::Neg)
    }
}
impl<'a> Neg for &'a S {
    type Output = S;
    #[inline]
    fn neg(self) -> S {
        (*self).un(Un::Neg)
    }
}

impl Zero for S {
    fn zero() -> S {
        zero_s()
    }
    fn is_zero(&self) -> bool {
        fork(Rel::Eq, *self, zero_s())
    }
}
impl One for S {
    fn one() -> S {
        S::c(1.0)
    }
    fn is_one(&self) -> bool {
        fork(Rel::Eq, *self, S::c(1.0))
    }
}
impl Inv for S {
    type Output = S;
    fn inv(self) -> S {
        self.recip()
    }
}
impl Sum for S {
    fn sum<I: Iterator<Item = S>>(iter: I) -> S {
        iter.fold(S::zero(), |a, b| a + b)
    }
}
impl<'a> Sum<&'a S> for S {
    fn sum<I: Iterator<Item = &'a S>>(iter: I) -> S {
        iter.fold(S::zero(), |a, b| a + *b)
    }
}
impl Product for S {
    fn product<I: Iterator<Item = S>>(iter: I) -> S {
        iter.fold(S::one(), |a, b| a * b)
    }
}
impl<'a> Product<&'a S> for S {
    fn product<I: Iterator<Item = &'a S>>(iter: I) -> S {
        iter.fold(S::one(), |a, b| a * *b)
    }
}

impl Num for S {
    type FromStrRadixErr = ();
    fn from_str_radix(_s: &str, _r: u32) -> Result<S, ()> {
        unimplemented!()
    }
}

impl Signed for S {
    fn abs(&self) -> S {
        S::abs(*self)
    }
    fn abs_sub(&self, o: &S) -> S {
        // std: (self - other).max(0)
        (*self - *o).max(S::zero())
    }
    fn signum(&self) -> S {
        S::signum(*self)
    }
    fn is_positive(&self) -> bool {
        fork(Rel::SignPos, *self, zero_s())
    }
    fn is_negative(&self) -> bool {
        // the sign bit cannot be set and clear at once: for IEEE floats is_negative is the exact
        // complement of is_positive (num_traits forwards both to the sign bit), so both
        // observations of one value share one decision
        !fork(Rel::SignPos, *self, zero_s())
    }
}

impl ToPrimitive for S {
    fn to_i64(&self) -> Option<i64> {
        self.const_value().and_then(|v| v.to_i64())
    }
    fn to_u64(&self) -> Option<u64> {
        self.const_value().and_then(|v| v.to_u64())
    }
    fn to_f64(&self) -> Option<f64> {
        match self.const_value() {
            Some(v) => Some(v),
            None => panic!("to_f64 on a symbolic scalar {:?}", self),
        }
    }
}
impl NumCast for S {
    fn from<T: ToPrimitive>(n: T) -> Option<S> {
        n.to_f64().map(S::c)
    }
}
impl FromPrimitive for S {
    fn from_i64(n: i64) -> Option<S> {
        Some(S::c(n as f64))
    }
    fn from_u64(n: u64) -> Option<S> {
        Some(S::c(n as f64))
    }
    fn from_f64(n: f64) -> Option<S> {
        Some(S::c(n))
    }
    fn from_f32(n: f32) -> Option<S> {
        Some(S::c(n as f64))
    }
    fn from_i128(n: i128) -> Option<S> {
        Some(S::c(n as f64))
    }
    fn from_u128(n: u128) -> Option<S> {
        Some(S::c(n as f64))
    }
}

macro_rules! fconst {
    ($($n:ident),*) => { $( fn $n() -> S { S::named(stringify!($n)) } )* };
}
#[allow(non_snake_case)]
impl FloatConst for S {
    fconst!(
        E,
        FRAC_1_PI,
        FRAC_1_SQRT_2,
        FRAC_2_PI,
        FRAC_2_SQRT_PI,
        FRAC_PI_2,
        FRAC_PI_3,
        FRAC_PI_4,
        FRAC_PI_6,
        FRAC_PI_8,
        LN_10,
        LN_2,
        LOG10_E,
        LOG2_E,
        PI,
        SQRT_2,
        TAU,
        LOG10_2,
        LOG2_10
    );
}

impl Float for S {
    fn nan() -> S {
        S::named("NAN")
    }
    fn infinity() -> S {
        S::named("INFINITY")
    }
    fn neg_infinity() -> S {
        S::named("NEG_INFINITY")
    }
    fn neg_zero() -> S {
        S::c(-0.0)
    }
    fn min_value() -> S {
        S::named("MIN")
    }
    fn min_positive_value() -> S {
        S::named("MIN_POSITIVE")
    }
    fn max_value() -> S {
        S::named("MAX")
    }
    fn epsilon() -> S {
        S::named("EPSILON")
    }
    fn is_nan(self) -> bool {
        fork(Rel::IsNan, self, zero_s())
    }
    fn is_infinite(self) -> bool {
        fork(Rel::IsInf, self, zero_s())
    }
    fn is_finite(self) -> bool {
        !fork(Rel::IsNan, self, zero_s()) && !fork(Rel::IsInf, self, zero_s())
    }
    fn is_normal(self) -> bool {
        unimplemented!("is_normal on S")
    }
    fn classify(self) -> FpCategory {
        unimplemented!("classify on S")
    }
    fn floor(self) -> S {
        unimplemented!("floor on S")
    }
    fn ceil(self) -> S {
        unimplemented!("ceil on S")
    }
    fn round(self) -> S {
        unimplemented!("round on S")
    }
    fn trunc(self) -> S {
        unimplemented!("trunc on S")
    }
    fn fract(self) -> S {
        unimplemented!("fract on S")
    }
    fn abs(self) -> S {
        S::abs(self)
    }
    fn signum(self) -> S {
        S::signum(self)
    }
    fn is_sign_positive(self) -> bool {
        fork(Rel::SignPos, self, zero_s())
    }
    fn is_sign_negative(self) -> bool {
        !fork(Rel::SignPos, self, zero_s())
    }
    fn mul_add(self, a: S, b: S) -> S {
        S::mul_add(self, a, b)
    }
    fn recip(self) -> S {
        S::recip(self)
    }
    fn powi(self, n: i32) -> S {
        S::powi(self, n)
    }
    fn powf(self, n: S) -> S {
        S::powf(self, n)
    }
    fn sqrt(self) -> S {
        S::sqrt(self)
    }
    fn exp(self) -> S {
        S::exp(self)
    }
    fn exp2(self) -> S {
        S::exp2(self)
    }
    fn ln(self) -> S {
        S::ln(self)
    }
    fn log(self, base: S) -> S {
        S::log(self, base)
    }
    fn log2(self) -> S {
        S::log2(self)
    }
    fn log10(self) -> S {
        S::log10(self)
    }
    fn max(self, o: S) -> S {
        S::max(self, o)
    }
    fn min(self, o: S) -> S {
        S::min(self, o)
    }
    fn abs_sub(self, o: S) -> S {
        (self - o).max(S::zero())
    }
    fn cbrt(self) -> S {
        S::cbrt(self)
    }
    fn hypot(self, o: S) -> S {
        S::hypot(self, o)
    }
    fn sin(self) -> S {
        S::sin(self)
    }
    fn cos(self) -> S {
        S::cos(self)
    }
    fn tan(self) -> S {
        S::tan(self)
    }
    fn asin(self) -> S {
        S::asin(self)
    }
    fn acos(self) -> S {
        S::acos(self)
    }
    fn atan(self) -> S {
        S::atan(self)
    }
    fn atan2(self, o: S) -> S {
        S::atan2(self, o)
    }
    fn sin_cos(self) -> (S, S) {
        S::sin_cos(self)
    }
    fn exp_m1(self) -> S {
        S::exp_m1(self)
    }
    fn ln_1p(self) -> S {
        S::ln_1p(self)
    }
    fn sinh(self) -> S {
        S::sinh(self)
    }
    fn cosh(self) -> S {
        S::cosh(self)
    }
    fn tanh(self) -> S {
        S::tanh(self)
    }
    fn asinh(self) -> S {
        S::asinh(self)
    }
    fn acosh(self) -> S {
        S::acosh(self)
    }
    fn atanh(self) -> S {
        S::atanh(self)
    }
    fn integer_decode(self) -> (u64, i16, i8) {
        unimplemented!("integer_decode on S")
    }
}

/// Evaluate every node of the DAG in f64 under a variable assignment (translator validation and
/// path selection for replay). Uses the same std functions as the f64 instantiation.
pub fn eval_dag(assign: &dyn Fn(&str) -> f64) -> Vec<f64> {
    CTX.with(|c| {
        let c = c.borrow();
        let mut v: Vec<f64> = Vec::with_capacity(c.nodes.len());
        for n in &c.nodes {
            let x = match n {
                Node::Var(i) => assign(&c.var_names[*i as usize]),
                Node::Const(b) => f64::from_bits(*b),
                Node::Named(n) => named_value(n),
                Node::Un(op, a) => eval_un(*op, v[*a as usize]),
                Node::Bin(op, a, b) => eval_bin(*op, v[*a as usize], v[*b as usize]),
                Node::Powi(a, n) => v[*a as usize].powi(*n),
                Node::MulAdd(a, b, cc) => v[*a as usize].mul_add(v[*b as usize], v[*cc as usize]),
            };
            v.push(x);
        }
        v
    })
}
