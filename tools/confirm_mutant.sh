#!/bin/bash
# tools/confirm_mutant.sh <worktree> <name> [features]
# Confirms a sub-agent's change independently in its scratch worktree: the unedited test suite
# passes with the change, the demonstration fails with it and passes without it. Then stores it
# as /verif/seeded/<name>/.
set -u
wt=$1; name=$2; feat=${3:-}
export CARGO_TARGET_DIR=$wt/target CARGO_NET_OFFLINE=true
cd $wt || exit 3
[ -f _mutant/patch.diff ] || { echo "no patch"; exit 3; }
git checkout -q -- src tests 2>/dev/null
git apply _mutant/patch.diff || { echo "patch does not apply to clean tree"; exit 3; }
suite=$(cargo test --workspace --no-fail-fast --offline 2>&1 | grep -E "^test result" | awk '{p+=$4; f+=$6} END {print p" passed "f" failed"}')
warn=$(cargo build --offline 2>&1 | grep -c "^warning: unused\|^warning: .*never")
cp _mutant/demo.rs tests/zz_demo.rs
with=$(cargo test --offline $feat --test zz_demo 2>&1 | grep -E "^test result" | tail -1)
git apply -R _mutant/patch.diff
without=$(cargo test --offline $feat --test zz_demo 2>&1 | grep -E "^test result" | tail -1)
rm -f tests/zz_demo.rs
echo "suite with change: $suite; warnings: $warn"
echo "demo with change:    $with"
echo "demo without change: $without"
mkdir -p /verif/seeded/$name
cp _mutant/patch.diff _mutant/demo.rs /verif/seeded/$name/
cp _mutant/meta.json /verif/seeded/$name/agent_meta.json
