#!/bin/bash
# tools/eval_mutant.sh <name> <ID> [<ID>...]  -- run checks against seeded/<name>/patch.diff, log outcome
name=$1; shift
for id in "$@"; do
  out=$(/verif/tools/try_patch.sh /verif/seeded/$name/patch.diff $id quick 2>&1)
  rc=$(echo "$out" | grep -o "exit=[0-9]*" | tail -1)
  nv=$(echo "$out" | grep -c "^VIOLATION")
  first=$(echo "$out" | grep -A1 "^VIOLATION" | head -2 | tail -1 | cut -c1-260)
  echo "$name $id $rc violations_printed=$nv :: $first"
  echo "$(date -u +%FT%TZ) $name $id $rc violations_printed=$nv :: $first" >> /verif/seeded/results.log
done
