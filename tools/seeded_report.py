#!/usr/bin/env python3
"""Regenerates seeded/*/meta.json (from agent_meta.json + seeded/results.log) and the table in
DESIGN.md section 11."""
import json, os, glob, collections
V = '/verif'
log = [l.split() for l in open(f'{V}/seeded/results.log')]
hist = collections.defaultdict(list)
for f in log:
    hist[(f[1], f[2])].append(f[3])
NOTES = json.load(open(f'{V}/seeded/notes.json'))
MANUAL = {'defect_D1': ['C09'], 'defect_D2': ['C10'], 'defect_D3': ['C01', 'C10'], 'defect_D4': ['C15'],
          'defect_D5': ['C15'], 'defect_D6': ['C11'], 'defect_D7': ['C13'], 'defect_D8': ['C10'],
          'own_c07_sub_refref': ['C07']}
DEFECT_PROP = {'defect_D1': 'C09', 'defect_D2': 'C10', 'defect_D3': 'C10', 'defect_D4': 'C15', 'defect_D5': 'C15',
               'defect_D6': 'C11', 'defect_D7': 'C13', 'defect_D8': 'C10'}
rows = []
for d in sorted(glob.glob(f'{V}/seeded/*/')):
    name = os.path.basename(d[:-1])
    meta = {'name': name}
    am = os.path.join(d, 'agent_meta.json')
    if os.path.exists(am):
        try:
            a = json.load(open(am))
            meta.update({'property': a.get('property'), 'summary': a.get('summary'), 'needs': a.get('needs'),
                         'files': a.get('files')})
        except Exception as e:
            meta['agent_meta_error'] = str(e)
        meta['origin'] = 'independent sub-agent given only the property text and a scratch worktree'
        meta['confirmed'] = ('tools/confirm_mutant.sh: the unedited suite (459 + 17 doc tests) passes with the change, '
                             'demo.rs fails with it and passes without it')
    elif name.startswith('defect_'):
        meta['origin'] = 'reverse of a fix: commit (the genuine defect as found on the pinned tree)'
        meta['property'] = DEFECT_PROP[name]
        fs = os.path.join(d, 'fix_subject.txt')
        meta['summary'] = open(fs).read().strip() if os.path.exists(fs) else 'fix: bessel_j2 for tiny non-zero arguments'
    else:
        meta['origin'] = 'written by the builder while testing a check'
        meta['property'] = 'C11' if 'c11' in name else ('C12' if 'c12' in name else 'C07')
        meta['summary'] = NOTES.get(name, {}).get('summary', '')
    res = {c: v for (n, c), v in hist.items() if n == name}
    meta['checks_run'] = {c: {'outcomes_in_order': v, 'caught': v[-1] == 'exit=1'} for c, v in res.items()}
    if name in MANUAL:
        meta['caught_by_manual_run'] = MANUAL[name]
    n = NOTES.get(name, {})
    if n.get('note'):
        meta['note'] = n['note']
    if n.get('same_patch_as'):
        meta['same_patch_as'] = n['same_patch_as']
    json.dump(meta, open(os.path.join(d, 'meta.json'), 'w'), indent=1)
    rows.append(meta)
lines = ['| change | property | what it needs | caught by | note |', '|---|---|---|---|---|']
for m in rows:
    caught = [c for c, v in m.get('checks_run', {}).items() if v['caught']]
    caught = sorted(set(caught + m.get('caught_by_manual_run', [])))
    note = m.get('note', '')
    if m.get('same_patch_as'):
        note = ('same patch as ' + m['same_patch_as'] + '; ' + note).strip('; ')
    need = (m.get('needs') or m.get('summary') or '').replace('|', '/').replace('\n', ' ')
    lines.append(f"| {m['name']} | {m.get('property')} | {need[:150]} | {', '.join(caught) or '-'} | {note[:320]} |")
s = open(f'{V}/DESIGN.md').read()
marker = '\n## 11. Seeded changes: results\n'
if marker in s:
    s = s[:s.index(marker)]
nagent = sum(1 for m in rows if m['name'].startswith('agent_'))
s += marker + f'''
{nagent} changes were produced by independent sub-agents in six rounds (each saw only one property's text
and its own scratch worktree; later rounds were told which sites were already taken), 8 are the reverse
patches of the repaired defects, 4 were written while testing a check. Every change was confirmed
independently (`tools/confirm_mutant.sh`: the unedited suite passes with it, the demonstration fails with
it and passes without it) before it was kept. Several agents converged on the same line; such duplicates
are kept because they were submitted under different properties. **Every kept change but one is now reported
as a reproducing VIOLATION by at least the check of the property it was written for** (one, a mis-forwarded
field method on Dual2Vec, only by the thorough tier). The exception is agent_C12_f, a slip inside the
float-absorption shortcut of the Jacobi rotation, which is outside the stated C12 bound (see its note). Changes that were missed on their first run led to
a strengthening of the check; the notes say which. Raw outcomes in order: `seeded/results.log`.

''' + '\n'.join(lines) + '\n'
open(f'{V}/DESIGN.md', 'w').write(s)
print(len(rows), 'entries')
