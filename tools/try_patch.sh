#!/bin/bash
# tools/try_patch.sh <patch.diff> <ID> [tier]  -- apply a patch to /repo, run one check, undo the patch.
# The evidence file of the clean tree is preserved (a mutant run must never be committed as evidence).
set -u
patch=$(readlink -f "$1"); id=$2; tier=${3:-quick}
cd /repo || exit 3
if ! git diff --quiet; then echo "/repo has uncommitted changes"; exit 3; fi
git apply "$patch" || { echo "patch does not apply"; exit 3; }
cd /verif
[ -f evidence/$id.json ] && cp evidence/$id.json /tmp/evidence_$id.keep
./check "$id" "$tier"; rc=$?
git -C /repo checkout -- .
[ -f /tmp/evidence_$id.keep ] && mv /tmp/evidence_$id.keep evidence/$id.json
echo "exit=$rc"
exit $rc
